package main

import (
	"fmt"
	"go/types"
	"sort"
	"strings"
	"sync"

	"golang.org/x/tools/go/ssa"
)

// ---------- script nodes (persistent list shared between paths) ----------

type Check struct {
	ID      int
	Name    string // obligation name
	Kind    string // post, pre, loop.init, loop.preserve, safety.*, assigns, assert, ghost, vacuity
	Goal    string
	Pos     string
	Tags    []string
	Func    string
	Clause  string
	Cover   bool // expectation is "sat" (reachability), not "unsat"
	Bounded int  // >0: inside an unrolled loop (bounded stand-in)
}

type node struct {
	prev   *node
	text   string // declaration / assert
	check  *Check
	n      int
	branch bool // an assertion that is a branch condition (part of the path condition when arms are merged)
}

type deferRec struct {
	guard string // "" = unconditional; otherwise the condition under which the defer statement was executed
	call *ssa.CallCommon
	fn   Val
	args []Val
	pos  string
	instr ssa.Instruction // the defer statement
}

type mapIter struct {
	m       Val
	visited string // SMT term of sort (Array K Bool)
	started string // SMT Bool term: some iteration of the range loop has begun (a Next returned ok)
	keyKind Kind
	isStr   bool
	isSlice bool
}

type Frame struct {
	fn       *ssa.Function
	regs     map[ssa.Value]Val
	block    *ssa.BasicBlock
	prev     *ssa.BasicBlock
	idx      int
	defers   []deferRec
	names    map[string]Val // source-level names (DebugRef), value or address (see nameIsAddr)
	nameAddr map[string]bool
	snaps    map[string]bool
	nameDef  map[string]string // snap variables defined on some merged arms only: the condition under which they are
	cut      map[*ssa.BasicBlock]bool
	loopAC   map[*loopHdr]*assignsCtx // modifies clauses of the cut loops (checked inside their bodies)
	iterWM   string                   // allocation watermark at the most recent loop cut of this frame (iterfresh)
	unrolled map[*ssa.BasicBlock]int
	retTo    ssa.Value // value in the caller frame that receives the result (nil: discard)
	deferSite ssa.Instruction // for an inlined deferred call: the defer statement (after-hooks fire when it has run)
	contract *FuncContract
	oldHeaps map[string]string
	params   []Val
	runDefer bool
	isDeferCall bool
	bounded  int
}

type State struct {
	e       *Engine
	heaps   map[string]string
	tail    *node
	wmBase  string
	wmK     int
	private map[string]bool
	frames  []*Frame
	iters   map[ssa.Value]*mapIter
	dead    bool
	assignsEnv *assignsCtx
	steps   int
	cellFn  map[string]Val // closure values stored in local cells (captured variables holding func values)
	arrival int
	known   *knownSet
	summary *summaryCtx
	quant   int
	qside   [][]string // range facts of loads performed inside quantifier bodies (innermost last)
}

func (st *State) clone() *State {
	n := &State{e: st.e, tail: st.tail, wmBase: st.wmBase, wmK: st.wmK, assignsEnv: st.assignsEnv, steps: st.steps, quant: st.quant, summary: st.summary, known: st.known}
	n.heaps = make(map[string]string, len(st.heaps))
	for k, v := range st.heaps {
		n.heaps[k] = v
	}
	n.private = make(map[string]bool, len(st.private))
	for k, v := range st.private {
		n.private[k] = v
	}
	n.cellFn = make(map[string]Val, len(st.cellFn))
	for k, v := range st.cellFn {
		n.cellFn[k] = v
	}
	n.iters = make(map[ssa.Value]*mapIter, len(st.iters))
	for k, v := range st.iters {
		c := *v
		n.iters[k] = &c
	}
	for _, f := range st.frames {
		g := *f
		g.regs = make(map[ssa.Value]Val, len(f.regs))
		for k, v := range f.regs {
			g.regs[k] = v
		}
		g.defers = append([]deferRec(nil), f.defers...)
		g.names = make(map[string]Val, len(f.names))
		for k, v := range f.names {
			g.names[k] = v
		}
		g.nameAddr = make(map[string]bool, len(f.nameAddr))
		for k, v := range f.nameAddr {
			g.nameAddr[k] = v
		}
		g.snaps = make(map[string]bool, len(f.snaps))
		for k, v := range f.snaps {
			g.snaps[k] = v
		}
		g.nameDef = make(map[string]string, len(f.nameDef))
		for k, v := range f.nameDef {
			g.nameDef[k] = v
		}
		g.cut = make(map[*ssa.BasicBlock]bool, len(f.cut))
		for k, v := range f.cut {
			g.cut[k] = v
		}
		g.unrolled = make(map[*ssa.BasicBlock]int, len(f.unrolled))
		for k, v := range f.unrolled {
			g.unrolled[k] = v
		}
		if f.loopAC != nil {
			g.loopAC = make(map[*loopHdr]*assignsCtx, len(f.loopAC))
			for k, v := range f.loopAC {
				g.loopAC[k] = v
			}
		}
		n.frames = append(n.frames, &g)
	}
	return n
}

func (st *State) top() *Frame { return st.frames[len(st.frames)-1] }

func (st *State) emit(text string) {
	n := 0
	if st.tail != nil {
		n = st.tail.n + 1
	}
	st.tail = &node{prev: st.tail, text: text, n: n}
}

func (st *State) assume(t string) {
	if t == "true" || t == "" {
		return
	}
	if st.quant > 0 {
		return
	}
	st.learn(t)
	st.emit("(assert " + t + ")")
}

// assumeBranch records a branch condition: unlike facts it distinguishes the arms of a branch when they are merged.
func (st *State) assumeBranch(t string) {
	if t == "true" || t == "" {
		return
	}
	st.learn(t)
	st.emit("(assert " + t + ")")
	st.tail.branch = true
}

// knownSet: persistent set of literals asserted on this path (used to prune syntactically infeasible branches).
type knownSet struct {
	prev *knownSet
	lit  string
}

func (st *State) learn(t string) {
	if strings.HasPrefix(t, "(and ") && len(t) < 2000 {
		for _, c := range splitSexprs(t[5 : len(t)-1]) {
			st.learn(c)
		}
		return
	}
	if len(t) < 400 {
		st.known = &knownSet{prev: st.known, lit: t}
	}
}

func (st *State) knows(t string) bool {
	n := 0
	for k := st.known; k != nil && n < 3000; k = k.prev {
		if k.lit == t {
			return true
		}
		n++
	}
	return false
}

func splitSexprs(s string) []string {
	var out []string
	d := 0
	start := -1
	for i := 0; i < len(s); i++ {
		c := s[i]
		if c == ' ' && d == 0 {
			if start >= 0 {
				out = append(out, s[start:i])
				start = -1
			}
			continue
		}
		if start < 0 {
			start = i
		}
		if c == '(' {
			d++
		}
		if c == ')' {
			d--
		}
	}
	if start >= 0 {
		out = append(out, s[start:])
	}
	return out
}

func (st *State) addCheck(c *Check) {
	// "checks structure": the contract is about the shape of the function only (cancellable, callsonly, vacuity);
	// preconditions of callees and loop invariants are not obligations of such a contract
	if len(st.frames) > 0 && st.frames[0].contract != nil && st.frames[0].contract.Checks["structure"] {
		switch c.Kind {
		case "cancellable", "callsonly", "vacuity", "post", "atcall":
		default:
			return
		}
	}
	// a trusted contract is an assumption; only its structural clauses (neverreads, callsonly, cancellable, atcall
	// assertions about the arguments of a call) are checked
	if len(st.frames) > 0 && st.frames[0].contract != nil && st.frames[0].contract.Trusted {
		switch c.Kind {
		case "cancellable", "callsonly", "vacuity", "atcall":
		default:
			return
		}
	}
	if c.Goal == "true" {
		// trivially discharged; still counted
		st.e.trivial = append(st.e.trivial, c)
		return
	}
	n := 0
	if st.tail != nil {
		n = st.tail.n + 1
	}
	st.e.checkCtr++
	c.ID = st.e.checkCtr
	st.tail = &node{prev: st.tail, check: c, n: n}
}

func (e *Engine) fresh(prefix string) string {
	e.nameCtr++
	return fmt.Sprintf("%s_%d", prefix, e.nameCtr)
}

func (st *State) declare(prefix, sort string) string {
	n := st.e.fresh(prefix)
	st.emit("(declare-const " + n + " " + sort + ")")
	return n
}

func (st *State) define(prefix, sort, term string) string {
	// avoid naming literals and existing names
	if !strings.HasPrefix(term, "(") || st.quant > 0 {
		return term
	}
	n := st.e.fresh(prefix)
	st.emit("(define-fun " + n + " () " + sort + " " + term + ")")
	return n
}

// ---------- heaps ----------

func (st *State) heap(name string) string {
	h, ok := st.heaps[name]
	if !ok {
		srt := st.e.heapSortOf(name)
		h = st.e.fresh(name)
		// declared lazily at first use on this path; initial heap names are shared via e.initHeaps
		if ih, ok := st.e.initHeaps[name]; ok {
			h = ih
		} else {
			st.e.initHeaps[name] = h
		}
		_ = srt
		st.heaps[name] = h
	}
	return h
}

func (st *State) setHeap(name, term string) {
	srt := st.e.heapSortOf(name)
	st.heaps[name] = st.define(name, srt, term)
}

func (st *State) havocHeap(name string) string {
	srt := st.e.heapSortOf(name)
	n := st.declare(name, srt)
	st.heaps[name] = n
	return n
}

func (st *State) wm() string {
	if st.wmK == 0 {
		return st.wmBase
	}
	return sSub(st.wmBase, intLit(int64(st.wmK)))
}

func (st *State) newRoot() string {
	st.wmK++
	return st.wm()
}

func (st *State) bumpWatermark() {
	old := st.wm()
	n := st.declare("wm", "Int")
	st.assume(sLe(n, old))
	st.wmBase = n
	st.wmK = 0
}

// envAddr records the assumption that an address obtained from the environment is not one of the
// private (fresh, unescaped) objects and not below the allocation watermark.
func (st *State) envAddr(term string) {
	if term == "null" {
		return
	}
	var priv []string
	for r := range st.private {
		priv = append(priv, r)
	}
	sort.Strings(priv)
	cs := []string{"(>= (root " + term + ") " + st.wm() + ")"}
	for _, r := range priv {
		cs = append(cs, "(not (= (root "+term+") "+r+"))")
	}
	st.assume(sOr("(= "+term+" null)", sAnd(cs...)))
}

func (st *State) escape(v Val) {
	addrsIn(v, func(term, root string) {
		if root != "" {
			delete(st.private, root)
		}
	})
}

// ---------- typed load / store / fresh / zero ----------

func (st *State) load(addr string, t types.Type, root string) Val {
	k := kindOf(t)
	switch k {
	case KInt, KBool, KAddr, KStr, KIface, KReal, KFunc:
		if k == KFunc {
			if cv, ok := st.cellFn[addr]; ok {
				return cv
			}
		}
		h := st.heap(heapFor(k, t))
		term := st.define("ld", sortOfKind(k), "(select "+h+" "+addr+")")
		v := Val{K: k, T: term, Ty: t}
		if k == KInt {
			if st.quant > 0 {
				if n := len(st.qside); n > 0 {
					if r := rangeAssume(term, t); r != "true" {
						st.qside[n-1] = append(st.qside[n-1], "(! "+r+" :pattern ("+term+"))")
					}
				}
			} else {
				st.assume(rangeAssume(term, t))
			}
		}
		if k == KAddr && root == "" {
			st.envAddr(term)
		}
		if k == KAddr {
			st.typeFact(term, t)
		}
		return v
	case KSlice:
		b := st.define("ld", "Addr", "(select "+st.heap("Ha")+" (fld "+addr+" 0))")
		o := st.define("ld", "Int", "(select "+st.heap("Hi")+" (fld "+addr+" 1))")
		l := st.define("ld", "Int", "(select "+st.heap("Hi")+" (fld "+addr+" 2))")
		c := st.define("ld", "Int", "(select "+st.heap("Hi")+" (fld "+addr+" 3))")
		st.assume(sAnd(sLe("0", l), sLe(l, c), sLe("0", o), sLe(c, "9223372036854775807")))
		st.assume(sImp("(= "+b+" null)", sAnd(sEq(l, "0"), sEq(c, "0"))))
		if root == "" {
			st.envAddr(b)
		}
		return Val{K: KSlice, Base: b, Off: o, Len: l, Cap: c, Ty: t}
	case KStruct:
		s := structOf(t)
		v := Val{K: KStruct, Ty: t}
		for i := 0; i < s.NumFields(); i++ {
			v.F = append(v.F, st.load("(fld "+addr+" "+intLit(int64(i))+")", s.Field(i).Type(), root))
		}
		// ghost state that travels with a value copy (math/big.Int: the mathematical value of the copy is the value of
		// the original at the time of the copy) is carried as hidden trailing components of the struct value
		for _, cg := range st.e.carriedGhosts(t) {
			v.F = append(v.F, Val{K: cg.k, T: st.define("ldg", sortOfKind(cg.k), "(select "+st.heap(cg.heap)+" "+addr+")"), Ty: cg.t})
		}
		return v
	case KArr:
		a := t.Underlying().(*types.Array)
		if a.Len() > 128 {
			st.e.unsupported("array value of length %d loaded", a.Len())
			return Val{K: KArr, Ty: t}
		}
		v := Val{K: KArr, Ty: t}
		for i := int64(0); i < a.Len(); i++ {
			v.F = append(v.F, st.load("(elem "+addr+" "+intLit(i)+")", a.Elem(), root))
		}
		return v
	}
	st.e.unsupported("load of kind %v", k)
	return Val{K: KInt, T: "0", Ty: t}
}

func (st *State) store(addr string, v Val, t types.Type) {
	k := kindOf(t)
	switch k {
	case KInt, KBool, KAddr, KStr, KIface, KReal, KFunc:
		hn := heapFor(k, t)
		term := v.T
		if k == KFunc && term == "" {
			term = st.e.funcID(v)
		}
		if k == KFunc {
			if st.cellFn == nil {
				st.cellFn = map[string]Val{}
			}
			if v.Fn != nil {
				st.cellFn[addr] = v
			} else {
				delete(st.cellFn, addr)
			}
		}
		st.setHeap(hn, "(store "+st.heap(hn)+" "+addr+" "+term+")")
	case KSlice:
		st.setHeap("Ha", "(store "+st.heap("Ha")+" (fld "+addr+" 0) "+v.Base+")")
		st.setHeap("Hi", "(store (store (store "+st.heap("Hi")+" (fld "+addr+" 1) "+v.Off+") (fld "+addr+" 2) "+v.Len+") (fld "+addr+" 3) "+v.Cap+")")
	case KStruct:
		s := structOf(t)
		for i := 0; i < s.NumFields(); i++ {
			st.store("(fld "+addr+" "+intLit(int64(i))+")", v.F[i], s.Field(i).Type())
		}
		for j, cg := range st.e.carriedGhosts(t) {
			if n := s.NumFields() + j; n < len(v.F) && v.F[n].T != "" {
				st.setHeap(cg.heap, "(store "+st.heap(cg.heap)+" "+addr+" "+v.F[n].T+")")
			} else {
				// a value whose ghost component is not known (zero value, value from the environment): the ghost
				// state of the overwritten object is unknown afterwards
				st.setHeap(cg.heap, "(store "+st.heap(cg.heap)+" "+addr+" "+st.declare("hvg", sortOfKind(cg.k))+")")
			}
		}
	case KArr:
		a := t.Underlying().(*types.Array)
		for i := int64(0); i < a.Len() && int(i) < len(v.F); i++ {
			st.store("(elem "+addr+" "+intLit(i)+")", v.F[i], a.Elem())
		}
	default:
		st.e.unsupported("store of kind %v", k)
	}
}

// assumeZeroAt assumes (angelically, the object is fresh) that memory at addr holds the zero value of t.
func (st *State) assumeZeroAt(addr string, t types.Type) {
	k := kindOf(t)
	switch k {
	case KInt, KBool, KAddr, KStr, KIface, KReal, KFunc:
		st.assume("(= (select " + st.heap(heapFor(k, t)) + " " + addr + ") " + zeroTerm(k) + ")")
	case KSlice:
		st.assume("(= (select " + st.heap("Ha") + " (fld " + addr + " 0)) null)")
		for i := 1; i <= 3; i++ {
			st.assume(fmt.Sprintf("(= (select %s (fld %s %d)) 0)", st.heap("Hi"), addr, i))
		}
	case KStruct:
		s := structOf(t)
		for i := 0; i < s.NumFields(); i++ {
			st.assumeZeroAt("(fld "+addr+" "+intLit(int64(i))+")", s.Field(i).Type())
		}
	case KArr:
		a := t.Underlying().(*types.Array)
		if a.Len() <= 64 && kindOf(a.Elem()) != KStruct {
			for i := int64(0); i < a.Len(); i++ {
				st.assumeZeroAt("(elem "+addr+" "+intLit(i)+")", a.Elem())
			}
		} else {
			st.assumeZeroRange(addr, "0", intLit(a.Len()), a.Elem())
		}
	}
}

// leafPaths enumerates leaf locations under an address term pattern.
func leafPaths(addr string, t types.Type, f func(addr string, k Kind, t types.Type)) {
	k := kindOf(t)
	switch k {
	case KInt, KBool, KAddr, KStr, KIface, KReal, KFunc:
		f(addr, k, t)
	case KSlice:
		f("(fld "+addr+" 0)", KAddr, nil)
		f("(fld "+addr+" 1)", KInt, nil)
		f("(fld "+addr+" 2)", KInt, nil)
		f("(fld "+addr+" 3)", KInt, nil)
	case KStruct:
		s := structOf(t)
		for i := 0; i < s.NumFields(); i++ {
			leafPaths("(fld "+addr+" "+intLit(int64(i))+")", s.Field(i).Type(), f)
		}
	case KArr:
		a := t.Underlying().(*types.Array)
		if a.Len() <= 64 {
			for i := int64(0); i < a.Len(); i++ {
				leafPaths("(elem "+addr+" "+intLit(i)+")", a.Elem(), f)
			}
		}
	}
}

// assumeZeroRange: forall i in [lo,hi): element i under base addr is zero.
func (st *State) assumeZeroRange(base, lo, hi string, elemT types.Type) {
	q := st.e.fresh("qi")
	leafPaths("(elem "+base+" "+q+")", elemT, func(a string, k Kind, lt types.Type) {
		h := st.heap(heapFor(k, lt))
		st.assume("(forall ((" + q + " Int)) (! (=> (and (<= " + lo + " " + q + ") (< " + q + " " + hi + ")) (= (select " + h + " " + a + ") " + zeroTerm(k) + ")) :pattern ((select " + h + " " + a + "))))")
	})
}

func (st *State) zeroVal(t types.Type) Val {
	k := kindOf(t)
	switch k {
	case KInt, KBool, KAddr, KStr, KIface, KReal, KFunc:
		return Val{K: k, T: zeroTerm(k), Ty: t}
	case KSlice:
		return Val{K: KSlice, Base: "null", Off: "0", Len: "0", Cap: "0", Ty: t}
	case KStruct:
		s := structOf(t)
		v := Val{K: KStruct, Ty: t}
		for i := 0; i < s.NumFields(); i++ {
			v.F = append(v.F, st.zeroVal(s.Field(i).Type()))
		}
		return v
	case KArr:
		a := t.Underlying().(*types.Array)
		v := Val{K: KArr, Ty: t}
		if a.Len() > 128 {
			st.e.unsupported("zero array value of length %d", a.Len())
			return v
		}
		for i := int64(0); i < a.Len(); i++ {
			v.F = append(v.F, st.zeroVal(a.Elem()))
		}
		return v
	case KTuple:
		tp := t.(*types.Tuple)
		v := Val{K: KTuple, Ty: t}
		for i := 0; i < tp.Len(); i++ {
			v.F = append(v.F, st.zeroVal(tp.At(i).Type()))
		}
		return v
	}
	return Val{K: KUnit}
}

// freshVal creates an unconstrained value of type t (with type-range assumptions); pointers come from the environment.
func (st *State) freshVal(t types.Type, hint string) Val {
	k := kindOf(t)
	switch k {
	case KInt, KBool, KStr, KIface, KReal, KFunc:
		n := st.declare(hint, sortOfKind(k))
		if k == KInt {
			st.assume(rangeAssume(n, t))
		}
		return Val{K: k, T: n, Ty: t}
	case KAddr:
		n := st.declare(hint, "Addr")
		st.envAddr(n)
		st.typeFact(n, t)
		return Val{K: k, T: n, Ty: t}
	case KSlice:
		b := st.declare(hint+"_b", "Addr")
		// A slice obtained from the environment is modelled as starting at element 0 of its backing array.
		// (Assumption, listed in the evidence: two distinct incoming slices either start at the same element or
		// do not overlap; sub-slices computed by the code keep their exact offsets.)
		o := "0"
		l := st.declare(hint+"_l", "Int")
		c := st.declare(hint+"_c", "Int")
		st.assume(sAnd(sLe("0", l), sLe(l, c), sLe("0", o), sLe(c, "9223372036854775807")))
		st.assume(sImp("(= "+b+" null)", sAnd(sEq(l, "0"), sEq(c, "0"))))
		st.envAddr(b)
		return Val{K: KSlice, Base: b, Off: o, Len: l, Cap: c, Ty: t}
	case KStruct:
		s := structOf(t)
		v := Val{K: KStruct, Ty: t}
		for i := 0; i < s.NumFields(); i++ {
			v.F = append(v.F, st.freshVal(s.Field(i).Type(), hint+"_"+s.Field(i).Name()))
		}
		return v
	case KArr:
		a := t.Underlying().(*types.Array)
		v := Val{K: KArr, Ty: t}
		if a.Len() > 128 {
			st.e.unsupported("fresh array value of length %d", a.Len())
			return v
		}
		for i := int64(0); i < a.Len(); i++ {
			v.F = append(v.F, st.freshVal(a.Elem(), fmt.Sprintf("%s_%d", hint, i)))
		}
		return v
	case KTuple:
		tp := t.(*types.Tuple)
		v := Val{K: KTuple, Ty: t}
		for i := 0; i < tp.Len(); i++ {
			v.F = append(v.F, st.freshVal(tp.At(i).Type(), fmt.Sprintf("%s_%d", hint, i)))
		}
		return v
	}
	return Val{K: KUnit}
}

// valEq builds the SMT equality of two values of the same type.
func valEq(a, b Val) string {
	switch a.K {
	case KSlice:
		return sAnd(sEq(a.Base, b.Base), sEq(a.Off, b.Off), sEq(a.Len, b.Len))
	case KStruct, KTuple, KArr:
		var cs []string
		for i := range a.F {
			if i < len(b.F) {
				cs = append(cs, valEq(a.F[i], b.F[i]))
			}
		}
		return sAnd(cs...)
	case KUnit:
		return "true"
	}
	return sEq(a.T, b.T)
}

func valIte(c string, a, b Val) Val {
	switch a.K {
	case KSlice:
		return Val{K: KSlice, Base: sIte(c, a.Base, b.Base), Off: sIte(c, a.Off, b.Off), Len: sIte(c, a.Len, b.Len), Cap: sIte(c, a.Cap, b.Cap), Ty: a.Ty}
	case KStruct, KTuple, KArr:
		v := Val{K: a.K, Ty: a.Ty}
		for i := range a.F {
			if i >= len(b.F) {
				break // (hidden ghost components known on one side only are dropped)
			}
			v.F = append(v.F, valIte(c, a.F[i], b.F[i]))
		}
		return v
	case KUnit:
		return a
	}
	return Val{K: a.K, T: sIte(c, a.T, b.T), Ty: a.Ty}
}

// typeFact: a non-nil pointer of static type *T (T a named struct) points to an object of type T. Two pointers to
// different struct types are therefore different addresses (Go memory is typed; the heap model is not).
func (st *State) typeFact(term string, t types.Type) {
	if term == "null" || t == nil || st.quant > 0 {
		return
	}
	if mt, isMap := t.Underlying().(*types.Map); isMap {
		// maps of different types are different objects
		main := "(or (= " + term + " null) (= (dyntype " + term + ") " + intLit(int64(st.e.typeTag(mt))) + "))"
		if !st.knows(main) {
			st.assume(main)
		}
		return
	}
	pt, ok := t.Underlying().(*types.Pointer)
	if !ok {
		return
	}
	n, ok := pt.Elem().(*types.Named)
	if !ok {
		return
	}
	if _, isBasic := n.Underlying().(*types.Basic); isBasic {
		// pointer to a named scalar type (protobuf enums, ...): it points to an object of that type, i.e. not into
		// a field of a different type
		main := "(or (= " + term + " null) (= (dyntype " + term + ") " + intLit(int64(st.e.typeTag(n))) + "))"
		if !st.knows(main) {
			st.assume(main)
		}
		return
	}
	if _, ok := n.Underlying().(*types.Struct); !ok {
		return
	}
	main := "(or (= " + term + " null) (= (dyntype " + term + ") " + intLit(int64(st.e.typeTag(n))) + "))"
	if st.knows(main) {
		return
	}
	st.assume(main)
	// interior addresses are typed too: a field that is itself a struct has that struct's type, any other field is
	// not an object of struct type (so a struct pointer cannot point into the middle of another object's scalars)
	stt := n.Underlying().(*types.Struct)
	if stt.NumFields() > 48 || len(term) > 200 {
		return
	}
	var cs []string
	for i := 0; i < stt.NumFields(); i++ {
		tag := "0"
		if fn, ok := stt.Field(i).Type().(*types.Named); ok {
			switch fn.Underlying().(type) {
			case *types.Struct, *types.Basic:
				tag = intLit(int64(st.e.typeTag(fn)))
			}
		}
		cs = append(cs, "(= (dyntype (fld "+term+" "+intLit(int64(i))+")) "+tag+")")
	}
	st.assume(sImp("(not (= "+term+" null))", sAnd(cs...)))
}


// sliceFacts: 0 <= len <= cap, nil base implies empty, for every slice inside v.
func (st *State) sliceFacts(v Val) {
	switch v.K {
	case KSlice:
		// (lengths and capacities are ints: at most 2^63-1)
		st.assume(sAnd(sLe("0", v.Len), sLe(v.Len, v.Cap), sLe("0", v.Off), sLe(v.Cap, "9223372036854775807")))
		st.assume(sImp(sEq(v.Base, "null"), sAnd(sEq(v.Len, "0"), sEq(v.Cap, "0"))))
	case KStruct, KTuple, KArr:
		for _, f := range v.F {
			st.sliceFacts(f)
		}
	}
}

var carriedMu sync.Mutex

// carriedGhost: a ghost state keyed by *T that is copied along with value copies of T (see load/store of structs).
type carriedGhost struct {
	heap string
	k    Kind
	t    types.Type
}

// carriedGhosts returns the ghost states carried by value copies of t. Policy: ghost states with a single parameter
// of type *T for a struct type T of package math/big (bigval). A shallow copy of a big.Int shares the digit array with
// the original; that a later in-place mutation of one of them does not disturb the other is an assumption (listed).
func (e *Engine) carriedGhosts(t types.Type) []carriedGhost {
	n, ok := t.(*types.Named)
	if !ok || n.Obj().Pkg() == nil || n.Obj().Pkg().Path() != "math/big" {
		return nil
	}
	carriedMu.Lock()
	defer carriedMu.Unlock()
	if e.carried == nil {
		e.carried = map[string][]carriedGhost{}
	}
	key := n.Obj().Pkg().Path() + "." + n.Obj().Name()
	if cg, ok := e.carried[key]; ok {
		return cg
	}
	var names []string
	for name, g := range e.ghosts {
		if g.IsState && len(g.Params) == 1 {
			names = append(names, name)
		}
	}
	sort.Strings(names)
	var out []carriedGhost
	for _, name := range names {
		g := e.ghosts[name]
		pt, err := e.resolveType(g.Params[0].Type, g.PkgPath, g.Imports)
		if err != nil {
			continue
		}
		p, ok := pt.(*types.Pointer)
		if !ok || !types.Identical(p.Elem(), t) {
			continue
		}
		_, k, rt, err := e.ghostStateSort(g)
		if err != nil || (k != KInt && k != KBool) {
			continue
		}
		out = append(out, carriedGhost{heap: "G$" + name, k: k, t: rt})
	}
	e.carried[key] = out
	return out
}

// ghostPaths enumerates the struct nodes under an address pattern whose type carries ghost state by value.
func (e *Engine) ghostPaths(addr string, t types.Type, f func(addr string, cg carriedGhost)) {
	if kindOf(t) != KStruct {
		return
	}
	for _, cg := range e.carriedGhosts(t) {
		f(addr, cg)
	}
	s := structOf(t)
	for i := 0; i < s.NumFields(); i++ {
		e.ghostPaths("(fld "+addr+" "+intLit(int64(i))+")", s.Field(i).Type(), f)
	}
}
