package main

import (
	"fmt"
	"go/types"
	"math/big"
	"strings"

	"golang.org/x/tools/go/ssa"
)

func newBig(n int64) *big.Int { return big.NewInt(n) }

type Kind int

const (
	KInt Kind = iota
	KBool
	KAddr
	KStr
	KIface
	KReal
	KFunc
	KSlice
	KStruct
	KTuple
	KArr
	KUnit
)

func (k Kind) String() string {
	return [...]string{"int", "bool", "addr", "str", "iface", "real", "func", "slice", "struct", "tuple", "arr", "unit"}[k]
}

type Val struct {
	K                   Kind
	T                   string // scalar term
	Base, Off, Len, Cap string // slice
	F                   []Val  // struct fields / tuple / array elements
	Fn                  *ssa.Function
	Bind                []Val
	Ty                  types.Type
	Root                string // private root term this address derives from ("" if none)
	NonNil              bool
}

func (v Val) String() string {
	switch v.K {
	case KSlice:
		return fmt.Sprintf("slice(%s,%s,%s,%s)", v.Base, v.Off, v.Len, v.Cap)
	case KStruct, KTuple, KArr:
		var s []string
		for _, f := range v.F {
			s = append(s, f.String())
		}
		return v.K.String() + "{" + strings.Join(s, ", ") + "}"
	}
	return v.T
}

func kindOf(t types.Type) Kind {
	switch u := t.Underlying().(type) {
	case *types.Basic:
		switch {
		case u.Info()&types.IsBoolean != 0:
			return KBool
		case u.Info()&types.IsInteger != 0:
			return KInt
		case u.Info()&types.IsFloat != 0:
			return KReal
		case u.Info()&types.IsString != 0:
			return KStr
		case u.Kind() == types.UnsafePointer:
			return KAddr
		case u.Kind() == types.UntypedNil:
			return KAddr
		case u.Info()&types.IsComplex != 0:
			return KReal
		}
	case *types.Pointer, *types.Map, *types.Chan:
		return KAddr
	case *types.Slice:
		return KSlice
	case *types.Struct:
		return KStruct
	case *types.Interface:
		return KIface
	case *types.Signature:
		return KFunc
	case *types.Array:
		return KArr
	case *types.Tuple:
		return KTuple
	}
	return KInt
}

func sortOfKind(k Kind) string {
	switch k {
	case KInt, KFunc:
		return "Int"
	case KBool:
		return "Bool"
	case KAddr:
		return "Addr"
	case KStr:
		return "Str"
	case KIface:
		return "Iface"
	case KReal:
		return "Real"
	}
	panic("no sort for kind " + k.String())
}

func heapOfKind(k Kind) string {
	switch k {
	case KInt:
		return "Hi"
	case KFunc:
		return "Hc"
	case KBool:
		return "Hb"
	case KAddr:
		return "Ha"
	case KStr:
		return "Hs"
	case KIface:
		return "Hf"
	case KReal:
		return "Hr"
	}
	panic("no heap for kind " + k.String())
}

var baseHeaps = []string{"Hi", "Hy", "Hc", "Hb", "Ha", "Hs", "Hf", "Hr"}

// isByteType: locations of type byte/uint8 live in their own heap Hy, so that byte strings (str_of) are not
// disturbed by stores of other integers (slice headers, counters, ...).
func isByteType(t types.Type) bool {
	if t == nil {
		return false
	}
	b, ok := t.Underlying().(*types.Basic)
	return ok && b.Kind() == types.Uint8
}

func heapFor(k Kind, t types.Type) string {
	if k == KInt && isByteType(t) {
		return "Hy"
	}
	return heapOfKind(k)
}

func heapSort(h string) string {
	switch h {
	case "Hi", "Hc", "Hy":
		return "(Array Addr Int)"
	case "Hb":
		return "(Array Addr Bool)"
	case "Ha":
		return "(Array Addr Addr)"
	case "Hs":
		return "(Array Addr Str)"
	case "Hf":
		return "(Array Addr Iface)"
	case "Hr":
		return "(Array Addr Real)"
	case "ML":
		return "(Array Addr Int)"
	}
	return ""
}

func zeroTerm(k Kind) string {
	switch k {
	case KInt, KFunc:
		return "0"
	case KBool:
		return "false"
	case KAddr:
		return "null"
	case KStr:
		return "str_empty"
	case KIface:
		return "inil"
	case KReal:
		return "0.0"
	}
	panic("zeroTerm " + k.String())
}

// intRange returns (lo, hi, ok) for sized integer basic types; bit width in w.
func intRange(t types.Type) (lo, hi *big.Int, w int, signed bool, ok bool) {
	b, isB := t.Underlying().(*types.Basic)
	if !isB || b.Info()&types.IsInteger == 0 {
		return nil, nil, 0, false, false
	}
	switch b.Kind() {
	case types.Int8:
		w, signed = 8, true
	case types.Int16:
		w, signed = 16, true
	case types.Int32:
		w, signed = 32, true
	case types.Int64, types.Int, types.UntypedInt, types.UntypedRune:
		w, signed = 64, true
	case types.Uint8:
		w = 8
	case types.Uint16:
		w = 16
	case types.Uint32:
		w = 32
	case types.Uint64, types.Uint, types.Uintptr:
		w = 64
	default:
		return nil, nil, 0, false, false
	}
	one := big.NewInt(1)
	if signed {
		hi = new(big.Int).Sub(new(big.Int).Lsh(one, uint(w-1)), one)
		lo = new(big.Int).Neg(new(big.Int).Lsh(one, uint(w-1)))
	} else {
		lo = big.NewInt(0)
		hi = new(big.Int).Sub(new(big.Int).Lsh(one, uint(w)), one)
	}
	return lo, hi, w, signed, true
}

func bigLit(n *big.Int) string {
	if n.Sign() < 0 {
		return "(- " + new(big.Int).Neg(n).String() + ")"
	}
	return n.String()
}

func rangeAssume(term string, t types.Type) string {
	lo, hi, _, _, ok := intRange(t)
	if !ok {
		return "true"
	}
	if _, isLit := litVal(term); isLit {
		return "true"
	}
	return "(and (<= " + bigLit(lo) + " " + term + ") (<= " + term + " " + bigLit(hi) + "))"
}

// wrapInt wraps term into the range of t (two's complement) if the width is < 64 or force is set.
func wrapInt(term string, t types.Type, force bool) string {
	_, _, w, signed, ok := intRange(t)
	if !ok {
		return term
	}
	if w >= 64 && !force {
		return term
	}
	if v, isLit := litVal(term); isLit && w < 63 {
		m := int64(1) << uint(w)
		r := ((v % m) + m) % m
		if signed && r >= m/2 {
			r -= m
		}
		return intLit(r)
	}
	m := new(big.Int).Lsh(big.NewInt(1), uint(w)).String()
	if !signed {
		return "(mod " + term + " " + m + ")"
	}
	h := new(big.Int).Lsh(big.NewInt(1), uint(w-1)).String()
	return "(- (mod (+ " + term + " " + h + ") " + m + ") " + h + ")"
}

func structOf(t types.Type) *types.Struct {
	s, _ := t.Underlying().(*types.Struct)
	return s
}

func derefType(t types.Type) types.Type {
	if p, ok := t.Underlying().(*types.Pointer); ok {
		return p.Elem()
	}
	return nil
}

// addrsIn lists all Addr-sorted terms contained in v together with their private roots.
func addrsIn(v Val, f func(term, root string)) {
	switch v.K {
	case KAddr:
		f(v.T, v.Root)
	case KSlice:
		f(v.Base, v.Root)
	case KStruct, KTuple, KArr:
		for _, x := range v.F {
			addrsIn(x, f)
		}
	case KFunc:
		for _, x := range v.Bind {
			addrsIn(x, f)
		}
	case KIface:
		if v.Root != "" {
			f("", v.Root)
		}
	}
}
