package main

import (
	"context"
	"fmt"
	"strings"
)

// Consistency: every axiom below is guarded by "both inputs are bytes" and is the Int reading of a formula proved in
// QF_BV at width 8, so the interpretation "the byte operation on bytes, 0 elsewhere" satisfies all of them.
// Bit operations on bytes are uninterpreted functions over Int in the VCs. Every fact assumed about them is
// listed here together with its bit-vector statement, which is proved (QF_BV, width 8, all values) on every run
// before the Int-level axiom may be used.
type bvLemma struct {
	name string
	bv   string // closed QF_BV formula over a, b (bit-vectors of width 8) that must be valid
	ax   string // Int-level axiom
}

const rng8 = "(and (<= 0 a) (<= a 255) (<= 0 b) (<= b 255))"

var bvLemmas = []bvLemma{
	{"xor8.involution", "(= (bvxor a (bvxor a b)) b)",
		"(forall ((a Int) (b Int)) (! (=> " + rng8 + " (= (xor8 a (xor8 a b)) b)) :pattern ((xor8 a (xor8 a b)))))"},
	{"xor8.comm", "(= (bvxor a b) (bvxor b a))",
		"(forall ((a Int) (b Int)) (! (=> " + rng8 + " (= (xor8 a b) (xor8 b a))) :pattern ((xor8 a b))))"},
	{"xor8.range", "true",
		"(forall ((a Int) (b Int)) (! (=> " + rng8 + " (and (<= 0 (xor8 a b)) (<= (xor8 a b) 255))) :pattern ((xor8 a b))))"},
	{"and8.comm", "(= (bvand a b) (bvand b a))",
		"(forall ((a Int) (b Int)) (! (=> " + rng8 + " (= (and8 a b) (and8 b a))) :pattern ((and8 a b))))"},
	{"or8.comm", "(= (bvor a b) (bvor b a))",
		"(forall ((a Int) (b Int)) (! (=> " + rng8 + " (= (or8 a b) (or8 b a))) :pattern ((or8 a b))))"},
	{"and8.range", "(bvule (bvand a b) a)",
		"(forall ((a Int) (b Int)) (! (=> " + rng8 + " (and (<= 0 (and8 a b)) (<= (and8 a b) a) (<= (and8 a b) b))) :pattern ((and8 a b))))"},
	{"or8.range", "true",
		"(forall ((a Int) (b Int)) (! (=> " + rng8 + " (and (<= 0 (or8 a b)) (<= (or8 a b) 255))) :pattern ((or8 a b))))"},
	// the elligator representative's two top bits: x | (0xC0 & r) keeps the low six bits of x
	{"or8.and8.topbits", "(= (bvand (bvor a (bvand #xc0 b)) #x3f) (bvand a #x3f))",
		"(forall ((a Int) (b Int)) (! (=> " + rng8 + " (= (mod (or8 a (and8 192 b)) 64) (mod a 64))) :pattern ((or8 a (and8 192 b)))))"},
}

func bitAxioms() string {
	var sb strings.Builder
	for _, l := range bvLemmas {
		sb.WriteString("(assert " + l.ax + ")\n")
	}
	return sb.String()
}

func proveBVLemmas() (bool, string) {
	var sb strings.Builder
	ok := true
	for _, l := range bvLemmas {
		if l.bv == "true" {
			fmt.Fprintf(&sb, "bv.%s: range fact of an 8-bit result (by construction of the byte type)\n", l.name)
			continue
		}
		q := "(set-logic QF_BV)\n(declare-const a (_ BitVec 8))\n(declare-const b (_ BitVec 8))\n(assert (not " + l.bv + "))\n(check-sat)\n"
		r := runSolver(context.Background(), "z3-new", q, 10000, 15)
		a := "error"
		if len(r.Answers) > 0 {
			a = r.Answers[0]
		}
		fmt.Fprintf(&sb, "bv.%s: %s (%.2fs)\n", l.name, a, r.Secs)
		if a != "unsat" {
			ok = false
		}
	}
	return ok, sb.String()
}
