package main

import (
	"os"
	"fmt"
	"go/token"
	"go/types"
	"strings"

	"golang.org/x/tools/go/ssa"
)

// keyOf returns the canonical contract key of a function.
func keyOf(fn *ssa.Function) string {
	if fn == nil {
		return "<nil>"
	}
	if fn.Parent() != nil {
		// anonymous function: parentKey + suffix after parent's name
		pk := keyOf(fn.Parent())
		pn := fn.Parent().Name()
		suffix := strings.TrimPrefix(fn.Name(), pn)
		return pk + suffix
	}
	if recv := fn.Signature.Recv(); recv != nil {
		t := recv.Type()
		if p, ok := t.(*types.Pointer); ok {
			t = p.Elem()
		}
		if n, ok := t.(*types.Named); ok {
			pk := ""
			if n.Obj().Pkg() != nil {
				pk = n.Obj().Pkg().Path() + "."
			}
			return "(" + pk + n.Obj().Name() + ")." + fn.Name()
		}
		return "(" + types.TypeString(t, nil) + ")." + fn.Name()
	}
	if fn.Pkg != nil {
		return fn.Pkg.Pkg.Path() + "." + fn.Name()
	}
	if fn.Object() != nil && fn.Object().Pkg() != nil {
		return fn.Object().Pkg().Path() + "." + fn.Name()
	}
	return fn.String()
}

func methodKey(recv types.Type, name string) string {
	t := recv
	if p, ok := t.(*types.Pointer); ok {
		t = p.Elem()
	}
	if n, ok := t.(*types.Named); ok {
		pk := ""
		if n.Obj().Pkg() != nil {
			pk = n.Obj().Pkg().Path() + "."
		}
		return "(" + pk + n.Obj().Name() + ")." + name
	}
	return "(" + types.TypeString(t, nil) + ")." + name
}

func (e *Engine) lookupContract(key string) *FuncContract {
	if c, ok := e.contracts[key]; ok {
		return c
	}
	// wildcard: "pkg.*" or "(pkg.T).*"
	if i := strings.LastIndex(key, "."); i >= 0 {
		if c, ok := e.contracts[key[:i]+".*"]; ok {
			return c
		}
	}
	return nil
}

func (e *Engine) callIsPure(call *ssa.CallCommon) bool {
	if _, ok := call.Value.(*ssa.Builtin); ok {
		b := call.Value.(*ssa.Builtin).Name()
		return b == "len" || b == "cap" || b == "min" || b == "max"
	}
	var key string
	if call.IsInvoke() {
		key = methodKey(call.Value.Type(), call.Method.Name())
	} else if f := call.StaticCallee(); f != nil {
		key = keyOf(f)
	} else {
		return false
	}
	c := e.lookupContract(key)
	return c != nil && c.HasAssigns && len(c.Assigns) == 0
}

func (e *Engine) inlinable(st *State, fn *ssa.Function, c *FuncContract) bool {
	if fn == nil || fn.Blocks == nil {
		return false
	}
	if c != nil {
		if c.NoInline || c.Trusted || (!c.Inline && (len(c.Requires) > 0 || len(c.Ensures) > 0 || c.HasAssigns)) {
			return false
		}
	}
	inModule := false
	if fn.Pkg != nil && strings.HasPrefix(fn.Pkg.Pkg.Path(), e.modulePath) {
		inModule = true
	}
	if fn.Parent() != nil {
		p := fn
		for p.Parent() != nil {
			p = p.Parent()
		}
		if p.Pkg != nil && strings.HasPrefix(p.Pkg.Pkg.Path(), e.modulePath) {
			inModule = true
		}
	}
	if !inModule {
		return false
	}
	if len(st.frames) > 6 {
		return false
	}
	for _, f := range st.frames {
		if f.fn == fn {
			return false
		}
	}
	n := 0
	for _, b := range fn.Blocks {
		n += len(b.Instrs)
	}
	if n > 700 {
		return false
	}
	li := e.loops(fn)
	if len(li.list) > 0 {
		if c == nil {
			return false
		}
		for _, h := range li.list {
			sp := c.Loops[h.ord]
			if sp == nil || (len(sp.Invs) == 0 && sp.Unroll == 0) {
				return false
			}
		}
	}
	if fn.Recover != nil && usesRecover(fn, map[*ssa.Function]bool{}) {
		// (go/ssa gives every function with a defer a recover block; only a deferred recover() makes it reachable)
		return false
	}
	return true
}

// usesRecover: fn, a function it defers, or one of its closures calls the recover builtin.
func usesRecover(fn *ssa.Function, seen map[*ssa.Function]bool) bool {
	if fn == nil || seen[fn] {
		return false
	}
	seen[fn] = true
	for _, b := range fn.Blocks {
		for _, in := range b.Instrs {
			var cc *ssa.CallCommon
			switch x := in.(type) {
			case *ssa.Call:
				cc = &x.Call
			case *ssa.Defer:
				cc = &x.Call
				if x.Call.IsInvoke() {
					return true // a deferred interface method: unknown
				}
			case *ssa.Go:
				cc = &x.Call
			}
			if cc == nil {
				continue
			}
			if bi, ok := cc.Value.(*ssa.Builtin); ok && bi.Name() == "recover" {
				return true
			}
			if _, ok := in.(*ssa.Defer); ok {
				switch v := cc.Value.(type) {
				case *ssa.Function:
					if usesRecover(v, seen) {
						return true
					}
				case *ssa.MakeClosure:
					if f, ok := v.Fn.(*ssa.Function); ok && usesRecover(f, seen) {
						return true
					}
				default:
					return true // deferred function value: unknown
				}
			}
		}
	}
	for _, a := range fn.AnonFuncs {
		if usesRecover(a, seen) {
			return true
		}
	}
	return false
}

func (e *Engine) doCall(st *State, call *ssa.CallCommon, fnv Val, args []Val, retTo ssa.Value, pos token.Pos, isDefer bool) {
	fr := st.top()
	setRes := func(v Val) {
		if retTo != nil {
			if v.Ty == nil {
				v.Ty = retTo.Type()
			}
			fr.regs[retTo] = v
		}
	}
	if b, ok := call.Value.(*ssa.Builtin); ok && !call.IsInvoke() {
		var rt types.Type
		if retTo != nil {
			rt = retTo.Type()
		}
		if b.Name() == "close" && len(st.frames) == 1 {
			// "atcall <close> before: ..." fires where a channel is closed (for a deferred close: when it runs)
			e.hookArgs = args
			var hi ssa.Instruction
			if isDefer {
				hi = e.curDeferInstr
			}
			e.runHooks(st, fr, hi, "<close>", "before")
		}
		setRes(e.builtin(st, b.Name(), args, call, rt, pos))
		return
	}
	var callee *ssa.Function
	var key string
	var sig *types.Signature
	if call.IsInvoke() {
		key = methodKey(call.Value.Type(), call.Method.Name())
		sig = call.Method.Type().(*types.Signature)
		if !args[0].NonNil {
			st.guard("nil", sNot(sEq(args[0].T, "inil")), pos)
		}
	} else {
		callee = call.StaticCallee()
		if callee == nil && fnv.Fn != nil {
			callee = fnv.Fn
		}
		if callee == nil && fnv.T != "" {
			if cl, ok := e.closures[fnv.T]; ok {
				callee = cl.Fn
				fnv = cl
			}
		}
		sig = call.Signature()
		if callee != nil {
			key = keyOf(callee)
		} else {
			key = "<dynamic func value>"
		}
	}
	if top := st.frames[0].contract; top != nil && len(top.CallsOnly) > 0 && st.summary == nil {
		ok := false
		for _, a := range top.CallsOnly {
			if strings.Contains(key, a) {
				ok = true
			}
		}
		if !ok {
			st.addCheck(&Check{Name: fmt.Sprintf("%s.callsonly[%s]", e.curFunc, lastSeg(key)), Kind: "callsonly", Goal: "false", Pos: posStr(e, pos), Tags: top.CallsTags, Func: e.curFunc,
				Clause: "callsonly " + strings.Join(top.CallsOnly, ", ") + "  (call to " + key + ")"})
		}
	}
	c := e.lookupContract(key)
	var hookInstr ssa.Instruction
	if ci, ok := retTo.(ssa.Instruction); ok && len(st.frames) == 1 {
		hookInstr = ci
		e.hookArgs = args
		e.runHooks(st, fr, hookInstr, key, "before")
		if st.dead {
			return
		}
	}
	if hookInstr != nil {
		defer func() {
			// "after" hooks run when the call's effect has been applied (contract or havoc; not for inlined callees)
			if len(st.frames) == 1 && !st.dead {
				e.hookArgs = args
				e.hookRes = nil
				if rv, ok := fr.regs[retTo]; ok {
					e.hookRes = &rv
				}
				e.runHooks(st, fr, hookInstr, key, "after")
				e.hookRes = nil
			}
		}()
	}
	if callee != nil && e.inlinable(st, callee, c) && e.summarizable(callee, map[*ssa.Function]bool{}) && st.summary == nil {
		if res, ok := e.summarize(st, callee, c, fnv, args, retTo); ok {
			e.inlinedFns[key+" (summarised: side-effect free)"] = true
			setRes(res)
			return
		}
	}
	if callee != nil && e.inlinable(st, callee, c) {
		e.inlinedFns[key] = true
		nf := &Frame{fn: callee, regs: map[ssa.Value]Val{}, block: callee.Blocks[0], names: map[string]Val{}, nameAddr: map[string]bool{},
			cut: map[*ssa.BasicBlock]bool{}, unrolled: map[*ssa.BasicBlock]int{}, retTo: retTo, contract: c, params: args}
		if isDefer {
			nf.deferSite = e.curDeferInstr
		}
		for i, p := range callee.Params {
			if i < len(args) {
				v := args[i]
				v.Ty = p.Type()
				nf.regs[p] = v
				nf.names[p.Name()] = v
			}
		}
		for i, fv := range callee.FreeVars {
			if i < len(fnv.Bind) {
				nf.regs[fv] = fnv.Bind[i]
				nf.names[fv.Name()] = fnv.Bind[i]
				nf.nameAddr[fv.Name()] = true
			} else {
				nf.regs[fv] = st.freshVal(fv.Type(), "fv")
			}
		}
		st.frames = append(st.frames, nf)
		return
	}
	if c != nil {
		e.usedSpecs[key] = true
		res := e.applyContract(st, c, key, sig, args, pos)
		setRes(res)
		return
	}
	// a call through a func value whose frame the function under contract assumes
	if key == "<dynamic func value>" {
		if top := st.frames[0].contract; top != nil && top.HasDyn {
			for _, a := range args {
				st.escape(a)
			}
			e.havocCalls["<dynamic func value> (assumed frame: "+strings.Join(top.DynAssigns, ", ")+")"] = true
			env := e.frameEnv(st, st.frames[0])
			e.havocDesignators(st, env, top.DynAssigns, "dynamic call")
			st.bumpWatermark()
			var res Val
			switch sig.Results().Len() {
			case 0:
				res = Val{K: KUnit}
			case 1:
				res = st.freshVal(sig.Results().At(0).Type(), "r_dyn")
			default:
				res = st.freshVal(sig.Results(), "r_dyn")
			}
			setRes(res)
			return
		}
	}
	// unknown callee: havoc
	e.havocCall(st, key, callee, args, pos)
	var res Val
	switch sig.Results().Len() {
	case 0:
		res = Val{K: KUnit}
	case 1:
		res = st.freshVal(sig.Results().At(0).Type(), "r_"+sanitize(lastSeg(key)))
	default:
		res = st.freshVal(sig.Results(), "r_"+sanitize(lastSeg(key)))
	}
	setRes(res)
}

func lastSeg(s string) string {
	if i := strings.LastIndex(s, "/"); i >= 0 {
		s = s[i+1:]
	}
	return s
}

func hasRefs(v Val) bool {
	switch v.K {
	case KAddr, KSlice, KIface, KFunc:
		return true
	case KStruct, KTuple, KArr:
		for _, f := range v.F {
			if hasRefs(f) {
				return true
			}
		}
	}
	return false
}

func (e *Engine) havocCall(st *State, key string, callee *ssa.Function, args []Val, pos token.Pos) {
	refs := false
	for _, a := range args {
		if hasRefs(a) {
			refs = true
		}
		st.escape(a)
	}
	inModule := callee != nil && callee.Pkg != nil && strings.HasPrefix(callee.Pkg.Pkg.Path(), e.modulePath)
	if callee != nil && callee.Parent() != nil {
		inModule = true
	}
	isModuleIface := callee == nil && strings.HasPrefix(key, "("+e.modulePath)
	if !refs && !inModule && !isModuleIface && key != "<dynamic func value>" {
		e.havocCalls[key+" (external, scalar arguments: no effect on the caller's memory assumed)"] = true
		return
	}
	if !inModule && !isModuleIface && key != "<dynamic func value>" {
		// external callee without a contract: shallow frame (assumption, listed in the evidence): it may change the
		// objects its reference arguments point to (pointee / slice elements / map / receiver) and allocate, nothing else.
		e.havocCalls[key+" (external, no contract: shallow frame assumed - may modify only the objects its arguments refer to)"] = true
		e.havocShallow(st, args, key, pos)
		st.bumpWatermark()
		return
	}
	ghost := true
	if callee != nil {
		ghost = e.mayTouchGhost(callee, map[*ssa.Function]bool{})
	}
	if ghost {
		e.havocCalls[key+" (module code without contract: all heaps and ghost state havocked)"] = true
	} else {
		e.havocCalls[key+" (module code without contract: all program heaps havocked; ghost state kept: the callee cannot reach an operation that changes it)"] = true
	}
	e.checkHavocFrame(st, key, true, nil, pos)
	e.havocAllG(st, ghost)
}

// havocShallow: the pointee of a pointer argument, the elements of a slice argument, the contents of a map argument
// and the object behind an interface argument may change; nothing else.
func (e *Engine) havocShallow(st *State, args []Val, key string, pos token.Pos) {
	type pred = havocPred
	var preds []pred
	var roots []string
	var walk func(v Val)
	walk = func(v Val) {
		switch v.K {
		case KAddr:
			if v.T == "null" || v.T == "" {
				return
			}
			if v.Ty != nil {
				if mt, ok := v.Ty.Underlying().(*types.Map); ok {
					t := v.T
					for _, hn := range []string{e.mapDomHeap(mt), "ML"} {
						hn := hn
						preds = append(preds, pred{hn, func(a string) string { return "(= " + a + " " + t + ")" }})
					}
					for _, vh := range e.mapValueHeaps(mt) {
						preds = append(preds, pred{vh, func(a string) string { return "(= " + a + " " + t + ")" }})
					}
					return
				}
				if et := derefType(v.Ty); et != nil {
					n := 0
					leafPaths(v.T, et, func(addr string, k Kind, lt types.Type) {
						n++
						addr2 := addr
						_ = addr2
						ptr := v.T
						preds = append(preds, pred{heapFor(k, lt), func(a string) string {
							// (a nil pointer has no pointee: selectors of null are unspecified terms and must not name a cell)
							return "(and (not (= " + ptr + " null)) (= " + a + " " + addr + "))"
						}})
					})
					if n > 0 && n <= 64 {
						// slices inside the pointee: their elements too
						return
					}
				}
			}
			roots = append(roots, "(root "+v.T+")")
		case KSlice:
			if v.Base == "null" {
				return
			}
			var et types.Type
			if v.Ty != nil {
				if sl, ok := v.Ty.Underlying().(*types.Slice); ok {
					et = sl.Elem()
				}
			}
			if et == nil {
				roots = append(roots, "(root "+v.Base+")")
				return
			}
			b := v.Base
			switch k := kindOf(et); k {
			case KInt, KBool, KAddr, KStr, KIface, KReal, KFunc:
				preds = append(preds, pred{heapFor(k, et), func(a string) string {
					return "(and (= (root " + a + ") (root " + b + ")) ((_ is pelem) (path " + a + ")) (= (peb (path " + a + ")) (path " + b + ")))"
				}})
			default:
				for _, hn := range leafHeapsOf(et) {
					preds = append(preds, pred{hn, func(a string) string { return "(= (root " + a + ") (root " + b + "))" }})
				}
			}
		case KIface:
			roots = append(roots, "(root (iaddr "+v.T+"))")
		case KStruct, KTuple, KArr:
			for _, f := range v.F {
				walk(f)
			}
		case KFunc:
			for _, b := range v.Bind {
				walk(b)
			}
		}
	}
	for _, a := range args {
		walk(a)
	}
	if len(roots) > 0 {
		for _, hn := range baseHeaps {
			for _, r := range roots {
				r := r
				preds = append(preds, pred{hn, func(a string) string { return "(= (root " + a + ") " + r + ")" }})
			}
		}
	}
	e.checkHavocFrame(st, key, false, preds, pos)
	by := map[string][]pred{}
	var order []string
	for _, p := range preds {
		if _, ok := by[p.heap]; !ok {
			order = append(order, p.heap)
		}
		by[p.heap] = append(by[p.heap], p)
	}
	sortStrings(order)
	for _, hn := range order {
		old := st.heap(hn)
		nw := st.havocHeap(hn)
		var cs []string
		for _, p := range by[hn] {
			cs = append(cs, p.f("a"))
		}
		st.assume("(forall ((a Addr)) (! (=> (not " + sOr(cs...) + ") (= (select " + nw + " a) (select " + old + " a))) :pattern ((select " + nw + " a))))")
	}
}

// havocRoots forgets the contents of the objects with the given root terms (all program heaps and map heaps).
func (e *Engine) havocRoots(st *State, roots []string) {
	if len(roots) == 0 {
		return
	}
	names := map[string]bool{}
	for n := range st.heaps {
		names[n] = true
	}
	for n := range e.initHeaps {
		names[n] = true
	}
	for _, n := range baseHeaps {
		names[n] = true
	}
	var sorted []string
	for n := range names {
		if !strings.HasPrefix(n, "G$") {
			sorted = append(sorted, n)
		}
	}
	sortStrings(sorted)
	for _, n := range sorted {
		if !strings.HasPrefix(e.heapSortOf(n), "(Array Addr ") {
			continue
		}
		old := st.heap(n)
		nw := st.havocHeap(n)
		var cs []string
		for _, r := range roots {
			cs = append(cs, "(= (root a) "+r+")")
		}
		st.assume("(forall ((a Addr)) (! (=> (not " + sOr(cs...) + ") (= (select " + nw + " a) (select " + old + " a))) :pattern ((select " + nw + " a))))")
	}
}

// instrMayTouchGhost: can this call change ghost state (i.e. reach a contract that assigns a ghost state)?
func (e *Engine) callMayTouchGhost(call *ssa.CallCommon, seen map[*ssa.Function]bool) bool {
	if _, ok := call.Value.(*ssa.Builtin); ok && !call.IsInvoke() {
		return false
	}
	var key string
	var callee *ssa.Function
	if call.IsInvoke() {
		key = methodKey(call.Value.Type(), call.Method.Name())
	} else {
		callee = call.StaticCallee()
		if callee == nil {
			return true // dynamic function value
		}
		key = keyOf(callee)
	}
	if c := e.lookupContract(key); c != nil {
		if !c.HasAssigns {
			return true
		}
		for _, d := range c.Assigns {
			d = strings.TrimSpace(d)
			if d == "*" || d == "all" {
				return true
			}
			if d == "memory" {
				continue
			}
			name := d
			if i := strings.Index(d, "("); i >= 0 {
				name = d[:i]
			}
			if g, ok := e.ghosts[name]; ok && g.IsState {
				return true
			}
		}
		// a contract that is only loop specs (inlinable) says nothing about effects: look at the body
		if callee != nil && !c.Trusted && len(c.Requires) == 0 && len(c.Ensures) == 0 && !c.HasAssigns {
			return e.mayTouchGhost(callee, seen)
		}
		return false
	}
	if call.IsInvoke() {
		return strings.HasPrefix(key, "("+e.modulePath)
	}
	return e.mayTouchGhost(callee, seen)
}

func (e *Engine) mayTouchGhost(fn *ssa.Function, seen map[*ssa.Function]bool) bool {
	if fn == nil {
		return true
	}
	if seen[fn] {
		return false
	}
	seen[fn] = true
	inModule := false
	root := fn
	for root.Parent() != nil {
		root = root.Parent()
	}
	if root.Pkg != nil && strings.HasPrefix(root.Pkg.Pkg.Path(), e.modulePath) {
		inModule = true
	}
	if !inModule {
		return false // code outside the module cannot name the module's ghost-tracked objects (assumption, listed)
	}
	if fn.Blocks == nil {
		return true
	}
	for _, b := range fn.Blocks {
		for _, in := range b.Instrs {
			switch x := in.(type) {
			case *ssa.Call:
				if e.callMayTouchGhost(&x.Call, seen) {
					return true
				}
			case *ssa.Defer:
				if e.callMayTouchGhost(&x.Call, seen) {
					return true
				}
			case *ssa.Go:
				if e.callMayTouchGhost(&x.Call, seen) {
					return true
				}
			case *ssa.MakeClosure:
				if f, ok := x.Fn.(*ssa.Function); ok && e.mayTouchGhost(f, seen) {
					return true
				}
			}
		}
	}
	return false
}

func (e *Engine) havocAll(st *State) { e.havocAllG(st, true) }

func (e *Engine) havocAllG(st *State, ghost bool) {
	// keep private (unescaped) objects: forall a. root(a) in private => H'[a] = H[a]
	var priv []string
	for r := range st.private {
		priv = append(priv, r)
	}
	names := map[string]bool{}
	for n := range st.heaps {
		names[n] = true
	}
	for n := range e.initHeaps {
		names[n] = true
	}
	for _, n := range baseHeaps {
		names[n] = true
	}
	for n := range e.ghostHeaps {
		names[n] = true
	}
	var sorted []string
	for n := range names {
		sorted = append(sorted, n)
	}
	sortStrings(sorted)
	for _, n := range sorted {
		if !ghost && strings.HasPrefix(n, "G$") {
			continue
		}
		old := st.heap(n)
		nw := st.havocHeap(n)
		if len(priv) > 0 && strings.HasPrefix(e.heapSortOf(n), "(Array Addr ") {
			sortStrings(priv)
			var cs []string
			for _, r := range priv {
				cs = append(cs, "(= (root a) "+r+")")
			}
			st.assume("(forall ((a Addr)) (! (=> " + sOr(cs...) + " (= (select " + nw + " a) (select " + old + " a))) :pattern ((select " + nw + " a))))")
		}
	}
	st.bumpWatermark()
}

func sortStrings(s []string) {
	for i := 1; i < len(s); i++ {
		for j := i; j > 0 && s[j] < s[j-1]; j-- {
			s[j], s[j-1] = s[j-1], s[j]
		}
	}
}

// applyContract: assert requires, havoc assigns, assume ensures.
func (e *Engine) applyContract(st *State, c *FuncContract, key string, sig *types.Signature, args []Val, pos token.Pos) Val {
	env := e.contractEnv(st, c, sig, args)
	for _, r := range c.Requires {
		t, err := e.evalBool(st, env, r.Expr)
		if err != nil {
			e.unsupported("requires %d of %s: %v", r.Ord, key, err)
			continue
		}
		if hasTag(r.Tags, "SAFETY") && !st.safetyOn() {
			// a precondition whose violation is a run-time panic: an obligation only for functions that check
			// safety; elsewhere executions that panic are outside the (partial-correctness) claim
			st.assume(t)
			continue
		}
		st.addCheck(&Check{Name: fmt.Sprintf("%s.call.%s.pre.%d@%s", e.curFunc, lastSeg(key), r.Ord, shortPos(posStr(e, pos))), Kind: "pre", Goal: t,
			Pos: posStr(e, pos), Tags: r.Tags, Func: e.curFunc, Clause: r.Text, Bounded: st.boundedNow()})
		st.assume(t)
	}
	// objects handed to the callee may come back in its results
	for _, a := range args {
		st.escape(a)
	}
	// snapshot for old()
	env.old = map[string]string{}
	for k, v := range st.heaps {
		env.old[k] = v
	}
	wmBefore := st.wm()
	if !c.HasAssigns {
		for _, a := range args {
			st.escape(a)
		}
		e.checkHavocFrame(st, key, true, nil, pos)
		e.havocAll(st)
	} else if len(c.Assigns) > 0 {
		e.checkCalleeAssigns(st, env, c.Assigns, pos)
		e.havocDesignators(st, env, c.Assigns, "call "+key)
		st.bumpWatermark()
	} else {
		st.bumpWatermark() // the callee may allocate: its results may be objects that did not exist before the call
	}
	// results
	var res Val
	var rs []Val
	for i := 0; i < sig.Results().Len(); i++ {
		rv := st.freshVal(sig.Results().At(i).Type(), "r_"+sanitize(lastSeg(key)))
		rs = append(rs, rv)
	}
	bindResults(env, c, rs)
	// fresh(x) in a postcondition assumed here: the object was allocated during the call, i.e. after everything that
	// exists now (its root lies below the allocation watermark of this moment)
	env.freshWM = wmBefore
	// a clause "result == x" / "resultN == x" names the result by a callee-local identifier x: at call sites x is
	// that result (other clauses may be stated over x, e.g. to match the shape of a loop invariant)
	for _, en := range c.Ensures {
		x := en.Expr
		if x != nil && x.Op == "bin" && x.Name == "==" && len(x.Args) == 2 && x.Args[0].Op == "id" && x.Args[1].Op == "id" && strings.HasPrefix(x.Args[0].Name, "result") {
			if rv, ok := env.vars[x.Args[0].Name]; ok {
				if _, taken := env.vars[x.Args[1].Name]; !taken {
					env.vars[x.Args[1].Name] = rv
				}
			}
		}
	}
	switch len(rs) {
	case 0:
		res = Val{K: KUnit}
	case 1:
		res = rs[0]
	default:
		res = Val{K: KTuple, F: rs, Ty: sig.Results()}
	}
	for _, en := range c.Ensures {
		if strings.Contains(en.Text, "defined(") {
			// clauses over the callee's own atcall snapshots say how the callee got its result; they mean nothing
			// in the caller's state and are not assumed there
			continue
		}
		t, err := e.evalBool(st, env, en.Expr)
		if err != nil {
			e.unsupported("ensures %d of %s: %v", en.Ord, key, err)
			continue
		}
		st.assume(t)
	}
	return res
}

func bindResults(env *cenv, c *FuncContract, rs []Val) {
	for i, r := range rs {
		env.vars[fmt.Sprintf("result%d", i)] = r
		if i < len(c.Results) && c.Results[i] != "" && c.Results[i] != "_" {
			env.vars[c.Results[i]] = r
		}
	}
	if len(rs) == 1 {
		env.vars["result"] = rs[0]
	}
}

func (e *Engine) contractEnv(st *State, c *FuncContract, sig *types.Signature, args []Val) *cenv {
	env := &cenv{vars: map[string]Val{}, lets: map[string]*CExpr{}, pkgPath: c.PkgPath, imports: c.Imports}
	i := 0
	if c.Recv != "" {
		if len(args) > 0 {
			env.vars[c.Recv] = args[0]
		}
		i = 1
	} else if sig != nil && sig.Recv() != nil {
		i = 1
	}
	for j, p := range c.Params {
		if i+j < len(args) {
			env.vars[p] = args[i+j]
		}
	}
	for _, ld := range c.Lets {
		env.lets[ld.Name] = ld.Expr
	}
	return env
}

func (e *Engine) doGo(st *State, call *ssa.CallCommon, fnv Val, args []Val, pos token.Pos, goInstr ssa.Instruction) {
	// precondition of the spawned function is an obligation; effects are not sequenced.
	var key string
	var sig *types.Signature
	if call.IsInvoke() {
		key = methodKey(call.Value.Type(), call.Method.Name())
		sig = call.Method.Type().(*types.Signature)
	} else {
		callee := call.StaticCallee()
		if callee == nil && fnv.Fn != nil {
			callee = fnv.Fn
		}
		if callee == nil {
			return
		}
		key = keyOf(callee)
		sig = call.Signature()
	}
	if goInstr != nil && len(st.frames) == 1 {
		e.hookArgs = args
		e.runHooks(st, st.top(), goInstr, "go "+key, "before")
	}
	for _, a := range args {
		st.escape(a)
	}
	st.escape(fnv)
	// ghost record: spawned_<function name>(first argument) := true, if such a ghost state was declared
	fname := key
	if i := strings.LastIndex(fname, "."); i >= 0 {
		fname = fname[i+1:]
	}
	gname := "G$spawned_" + strings.ReplaceAll(sanitize(fname), ".", "_")
	gname = strings.ReplaceAll(gname, "$", "_")
	gname = "G$" + strings.TrimPrefix(gname, "G_")
	if _, ok := e.ghostHeaps[gname]; ok && len(args) > 0 {
		st.setHeap(gname, "(store "+st.heap(gname)+" "+args[0].T+" true)")
	}
	c := e.lookupContract(key)
	if c == nil {
		return
	}
	env := e.contractEnv(st, c, sig, args)
	for _, r := range c.Requires {
		t, err := e.evalBool(st, env, r.Expr)
		if err != nil {
			continue
		}
		if hasTag(r.Tags, "SAFETY") && !st.safetyOn() {
			continue
		}
		st.addCheck(&Check{Name: fmt.Sprintf("%s.go.%s.pre.%d", e.curFunc, lastSeg(key), r.Ord), Kind: "pre", Goal: t, Pos: posStr(e, pos), Tags: r.Tags, Func: e.curFunc, Clause: r.Text})
	}
}

// ---------- builtins ----------

func (e *Engine) builtin(st *State, name string, args []Val, call *ssa.CallCommon, rt types.Type, pos token.Pos) Val {
	switch name {
	case "len":
		x := args[0]
		switch x.K {
		case KSlice:
			return Val{K: KInt, T: x.Len}
		case KStr:
			return Val{K: KInt, T: "(slen " + x.T + ")"}
		case KAddr:
			if _, ok := call.Args[0].Type().Underlying().(*types.Map); ok {
				t := st.define("mlen", "Int", "(select "+st.heap("ML")+" "+x.T+")")
				st.assume(sLe("0", t))
				st.assume(sImp(sEq(x.T, "null"), sEq(t, "0")))
				e.mapWitness(st, x.T, call.Args[0].Type().Underlying().(*types.Map))
				return Val{K: KInt, T: t}
			}
			if _, ok := call.Args[0].Type().Underlying().(*types.Chan); ok {
				v := st.freshVal(rt, "chanlen")
				st.assume(sLe("0", v.T))
				return v
			}
			if a, ok := derefType(call.Args[0].Type()).Underlying().(*types.Array); ok {
				return Val{K: KInt, T: intLit(a.Len())}
			}
		case KArr:
			return Val{K: KInt, T: intLit(int64(len(x.F)))}
		}
	case "cap":
		x := args[0]
		if x.K == KSlice {
			return Val{K: KInt, T: x.Cap}
		}
		v := st.freshVal(rt, "cap")
		st.assume(sLe("0", v.T))
		return v
	case "append":
		return e.appendOp(st, args[0], args[1], call.Args[0].Type())
	case "copy":
		return e.copyOp(st, args[0], args[1], call, pos)
	case "delete":
		if u, ok := call.Args[0].(*ssa.UnOp); ok && u.Op == token.MUL {
			if fa, ok := u.X.(*ssa.FieldAddr); ok {
				e.guardedWrite(st, fa, pos)
			}
		}
		e.mapDelete(st, args[0], args[1], call.Args[0].Type().Underlying().(*types.Map), pos)
		return Val{K: KUnit}
	case "panic":
		if st.safetyOn() {
			st.addCheck(&Check{Name: fmt.Sprintf("%s.safety.panic@%s", e.curFunc, shortPos(posStr(e, pos))), Kind: "safety.panic", Goal: "false", Pos: posStr(e, pos), Func: e.curFunc})
		}
		e.endPath(st, "panic")
		return Val{K: KUnit}
	case "min", "max":
		r := args[0]
		for _, a := range args[1:] {
			if name == "min" {
				r = Val{K: KInt, T: sIte(sLe(r.T, a.T), r.T, a.T)}
			} else {
				r = Val{K: KInt, T: sIte(sLe(a.T, r.T), r.T, a.T)}
			}
		}
		return r
	case "close":
		e.abstracted["close(chan)"] = true
		return Val{K: KUnit}
	case "recover":
		return Val{K: KIface, T: "inil"}
	case "print", "println":
		return Val{K: KUnit}
	case "ssa:wrapnilchk":
		return args[0]
	}
	e.unsupported("builtin %s", name)
	if rt != nil {
		return st.freshVal(rt, "bi")
	}
	return Val{K: KUnit}
}

// appendOp: result is a slice over a fresh object holding old elements followed by the new ones.
func (e *Engine) appendOp(st *State, s, xs Val, sliceT types.Type) Val {
	et := types.Type(types.Typ[types.Uint8])
	if sl, ok := sliceT.Underlying().(*types.Slice); ok {
		et = sl.Elem()
	}
	if xs.K == KStr { // append([]byte, string...)
		root := st.newRoot()
		addr := "(ref " + root + " pnil)"
		st.private[root] = true
		nl := st.define("alen", "Int", sAdd(s.Len, "(slen "+xs.T+")"))
		h := st.heap("Hy")
		q := e.fresh("qi")
		st.assume("(forall ((" + q + " Int)) (! (=> (and (<= 0 " + q + ") (< " + q + " " + s.Len + ")) (= (select " + h + " (elem " + addr + " " + q + ")) (select " + h + " " + elemAt(s.Base, s.Off, q) + "))) :pattern ((select " + h + " (elem " + addr + " " + q + ")))))")
		e.unsupported("append of string to byte slice")
		return Val{K: KSlice, Base: addr, Off: "0", Len: nl, Cap: nl, Root: root, NonNil: true, Ty: sliceT}
	}
	// Frame: when the slice has spare capacity append writes IN PLACE into its backing array. The result is still
	// modelled as a fresh object (aliasing of the result is not modelled), but the in-place write is a frame
	// obligation of the function under contract, so code that appends into caller-visible memory is reported.
	for _, ac := range st.activeACs() {
		// (checked against the function's frame only: the write goes to the spare capacity behind the slice's length,
		// which no fact kept across a loop cut can mention unless a longer slice of the same array is in use)
		if s.Base == "null" || s.Root != "" || ac.loop != 0 {
			continue
		}
		var cs []string
		leafPaths(elemAt(s.Base, s.Off, s.Len), et, func(a string, k Kind, lt types.Type) {
			cs = append(cs, e.allowedPred(ac, heapFor(k, lt), a))
		})
		st.addCheck(&Check{Name: e.acName(ac, "append"), Kind: "assigns", Goal: sImp(sAnd(sNot(sEq(s.Base, "null")), sLt(s.Len, s.Cap)), sAnd(cs...)), Func: e.curFunc, Clause: "append writes in place when the slice has spare capacity"})
	}
	root := st.newRoot()
	addr := "(ref " + root + " pnil)"
	st.private[root] = true
	nl := st.define("alen", "Int", sAdd(s.Len, xs.Len))
	cp := st.declare("acap", "Int")
	st.assume(sLe(nl, cp))
	// elements
	copyRange := func(dstLo string, src Val, n string) {
		if k, ok := litVal(n); ok && k <= 8 {
			for i := int64(0); i < k; i++ {
				v := st.load(elemAt(src.Base, src.Off, intLit(i)), et, src.Root)
				e.assumeStored(st, "(elem "+addr+" "+sAdd(dstLo, intLit(i))+")", v, et)
			}
			return
		}
		q := e.fresh("qi")
		leafPaths(elemAt(addr, dstLo, q), et, func(da string, k Kind, lt types.Type) {
			h := st.heap(heapFor(k, lt))
			sa := strings.Replace(da, elemAt(addr, dstLo, q), elemAt(src.Base, src.Off, q), 1)
			st.assume("(forall ((" + q + " Int)) (! (=> (and (<= 0 " + q + ") (< " + q + " " + n + ")) (= (select " + h + " " + da + ") (select " + h + " " + sa + "))) :pattern ((select " + h + " " + da + "))))")
		})
		// ghost state carried by value copies (bigval of embedded big.Int values)
		e.ghostPaths(elemAt(addr, dstLo, q), et, func(da string, cg carriedGhost) {
			h := st.heap(cg.heap)
			sa := strings.Replace(da, elemAt(addr, dstLo, q), elemAt(src.Base, src.Off, q), 1)
			st.assume("(forall ((" + q + " Int)) (! (=> (and (<= 0 " + q + ") (< " + q + " " + n + ")) (= (select " + h + " " + da + ") (select " + h + " " + sa + "))) :pattern ((select " + h + " " + da + "))))")
		})
	}
	copyRange("0", s, s.Len)
	copyRange(s.Len, xs, xs.Len)
	// the appended values themselves escape into the new object only as copies; the new slice is private
	return Val{K: KSlice, Base: addr, Off: "0", Len: nl, Cap: cp, Root: root, NonNil: true, Ty: sliceT}
}

// assumeStored: angelic initialisation of fresh memory with value v.
func (e *Engine) assumeStored(st *State, addr string, v Val, t types.Type) {
	k := kindOf(t)
	switch k {
	case KInt, KBool, KAddr, KStr, KIface, KReal, KFunc:
		term := v.T
		if k == KFunc {
			term = e.funcID(v)
		}
		st.assume("(= (select " + st.heap(heapFor(k, t)) + " " + addr + ") " + term + ")")
	case KSlice:
		st.assume("(= (select " + st.heap("Ha") + " (fld " + addr + " 0)) " + v.Base + ")")
		st.assume("(= (select " + st.heap("Hi") + " (fld " + addr + " 1)) " + v.Off + ")")
		st.assume("(= (select " + st.heap("Hi") + " (fld " + addr + " 2)) " + v.Len + ")")
		st.assume("(= (select " + st.heap("Hi") + " (fld " + addr + " 3)) " + v.Cap + ")")
	case KStruct:
		s := structOf(t)
		for i := 0; i < s.NumFields(); i++ {
			e.assumeStored(st, "(fld "+addr+" "+intLit(int64(i))+")", v.F[i], s.Field(i).Type())
		}
		for j, cg := range e.carriedGhosts(t) {
			if n := s.NumFields() + j; n < len(v.F) && v.F[n].T != "" {
				st.assume("(= (select " + st.heap(cg.heap) + " " + addr + ") " + v.F[n].T + ")")
			}
		}
	case KArr:
		a := t.Underlying().(*types.Array)
		for i := int64(0); i < a.Len() && int(i) < len(v.F); i++ {
			e.assumeStored(st, "(elem "+addr+" "+intLit(i)+")", v.F[i], a.Elem())
		}
	}
	st.escape(v)
}

func (e *Engine) copyOp(st *State, dst, src Val, call *ssa.CallCommon, pos token.Pos) Val {
	n := st.define("ncopy", "Int", sIte(sLe(dst.Len, srcLen(src)), dst.Len, srcLen(src)))
	et := types.Type(types.Typ[types.Uint8])
	if sl, ok := call.Args[0].Type().Underlying().(*types.Slice); ok {
		et = sl.Elem()
	}
	k := kindOf(et)
	if k == KStruct || k == KSlice || k == KArr {
		// aggregate elements: every leaf of element i of dst receives the corresponding leaf of element i of src; the
		// frame is coarse (the whole backing array of dst may change, nothing else)
		if src.K == KStr {
			e.unsupported("copy of a string into non-byte elements")
			return Val{K: KInt, T: n}
		}
		q := e.fresh("qi")
		type leaf struct{ heap, addr string }
		var dl, sl []leaf
		leafPaths(elemAt(dst.Base, dst.Off, q), et, func(addr string, lk Kind, lt types.Type) { dl = append(dl, leaf{heapFor(lk, lt), addr}) })
		leafPaths(elemAt(src.Base, src.Off, q), et, func(addr string, lk Kind, lt types.Type) { sl = append(sl, leaf{heapFor(lk, lt), addr}) })
		if len(dl) != len(sl) || len(dl) == 0 {
			e.unsupported("copy of non-scalar elements (shape)")
			return Val{K: KInt, T: n}
		}
		var heaps []string
		seen := map[string]bool{}
		for _, l := range dl {
			if !seen[l.heap] {
				seen[l.heap] = true
				heaps = append(heaps, l.heap)
			}
		}
		sortStrings(heaps)
		if dst.Root == "" {
			var preds []havocPred
			base := dst.Base
			for _, hn := range heaps {
				preds = append(preds, havocPred{hn, func(a string) string { return "(= (root " + a + ") (root " + base + "))" }})
			}
			e.checkHavocFrame(st, "copy", false, preds, pos)
		}
		olds := map[string]string{}
		for _, hn := range heaps {
			olds[hn] = st.heap(hn)
		}
		for _, hn := range heaps {
			nw := st.havocHeap(hn)
			for i, l := range dl {
				if l.heap != hn {
					continue
				}
				st.assume("(forall ((" + q + " Int)) (! (=> (and (<= 0 " + q + ") (< " + q + " " + n + ")) (= (select " + nw + " " + l.addr + ") (select " + olds[sl[i].heap] + " " + sl[i].addr + "))) :pattern ((select " + nw + " " + l.addr + "))))")
			}
			st.assume("(forall ((a Addr)) (! (=> (not (= (root a) (root " + dst.Base + "))) (= (select " + nw + " a) (select " + olds[hn] + " a))) :pattern ((select " + nw + " a))))")
		}
		return Val{K: KInt, T: n}
	}
	hn := heapFor(k, et)
	old := st.heap(hn)
	// frame obligation
	e.checkAssignsRange(st, dst, pos)
	nw := st.havocHeap(hn)
	q := e.fresh("qi")
	var srcAt string
	if src.K == KStr {
		srcAt = "(sat " + src.T + " " + q + ")"
	} else {
		srcAt = "(select " + old + " " + elemAt(src.Base, src.Off, q) + ")"
	}
	st.assume("(forall ((" + q + " Int)) (! (=> (and (<= 0 " + q + ") (< " + q + " " + n + ")) (= (select " + nw + " " + elemAt(dst.Base, dst.Off, q) + ") " + srcAt + ")) :pattern ((select " + nw + " " + elemAt(dst.Base, dst.Off, q) + "))))")
	st.assume("(forall ((a Addr)) (! (=> (not " + inSliceRange("a", dst.Base, dst.Off, n) + ") (= (select " + nw + " a) (select " + old + " a))) :pattern ((select " + nw + " a))))")
	return Val{K: KInt, T: n}
}

func srcLen(v Val) string {
	if v.K == KStr {
		return "(slen " + v.T + ")"
	}
	return v.Len
}

// inSliceRange: address a is element j of base with off <= j < off+n (scalar elements).
func inSliceRange(a, base, off, n string) string {
	return "(and (= (root " + a + ") (root " + base + ")) ((_ is pelem) (path " + a + ")) (= (peb (path " + a + ")) (path " + base + ")) (<= " + off + " (pei (path " + a + "))) (< (pei (path " + a + ")) (+ " + off + " " + n + ")))"
}

// ---------- interfaces ----------

func (e *Engine) makeIface(st *State, x Val, from, to types.Type) Val {
	tag := intLit(int64(e.typeTag(from)))
	if _, ok := from.Underlying().(*types.Interface); ok {
		x.Ty = to
		return x
	}
	switch x.K {
	case KAddr:
		return Val{K: KIface, T: "(ibox " + tag + " 0 " + x.T + " str_empty)", Ty: to, NonNil: true, Root: x.Root}
	case KInt:
		return Val{K: KIface, T: "(ibox " + tag + " " + x.T + " null str_empty)", Ty: to, NonNil: true}
	case KBool:
		return Val{K: KIface, T: "(ibox " + tag + " " + sIte(x.T, "1", "0") + " null str_empty)", Ty: to, NonNil: true}
	case KStr:
		return Val{K: KIface, T: "(ibox " + tag + " 0 null " + x.T + ")", Ty: to, NonNil: true}
	default:
		// boxed aggregate: opaque id with unboxing functions per leaf
		id := st.declare("box", "Int")
		i := 0
		e.leafVals(x, func(k Kind, term string) {
			st.assume("(= (" + unboxFn(k) + " " + id + " " + intLit(int64(i)) + ") " + term + ")")
			i++
		})
		st.escape(x)
		if x.K == KSlice && x.Base != "" {
			// a boxed slice refers to its backing array: obj(x) / shallow frames on the interface value reach the elements
			return Val{K: KIface, T: "(ibox " + tag + " " + id + " " + x.Base + " str_empty)", Ty: to, NonNil: true}
		}
		return Val{K: KIface, T: "(ibox " + tag + " " + id + " null str_empty)", Ty: to, NonNil: true}
	}
}

func unboxFn(k Kind) string {
	switch k {
	case KInt, KFunc:
		return "unbox"
	case KAddr:
		return "unboxa"
	case KStr:
		return "unboxs"
	case KIface:
		return "unboxf"
	case KBool:
		return "unboxb"
	case KReal:
		return "unboxr"
	}
	return "unbox"
}

func (e *Engine) leafVals(v Val, f func(k Kind, term string)) {
	switch v.K {
	case KSlice:
		f(KAddr, v.Base)
		f(KInt, v.Off)
		f(KInt, v.Len)
		f(KInt, v.Cap)
	case KStruct, KTuple, KArr:
		for _, x := range v.F {
			e.leafVals(x, f)
		}
	case KUnit:
	case KFunc:
		f(KFunc, e.funcID(v))
	default:
		f(v.K, v.T)
	}
}

func (e *Engine) unboxVal(st *State, id string, t types.Type, ctr *int) Val {
	k := kindOf(t)
	switch k {
	case KSlice:
		v := Val{K: KSlice, Ty: t}
		v.Base = "(unboxa " + id + " " + intLit(int64(*ctr)) + ")"
		v.Off = "(unbox " + id + " " + intLit(int64(*ctr+1)) + ")"
		v.Len = "(unbox " + id + " " + intLit(int64(*ctr+2)) + ")"
		v.Cap = "(unbox " + id + " " + intLit(int64(*ctr+3)) + ")"
		*ctr += 4
		st.assume(sAnd(sLe("0", v.Len), sLe(v.Len, v.Cap), sLe("0", v.Off)))
		return v
	case KStruct:
		s := structOf(t)
		v := Val{K: KStruct, Ty: t}
		for i := 0; i < s.NumFields(); i++ {
			v.F = append(v.F, e.unboxVal(st, id, s.Field(i).Type(), ctr))
		}
		return v
	case KArr:
		a := t.Underlying().(*types.Array)
		v := Val{K: KArr, Ty: t}
		for i := int64(0); i < a.Len(); i++ {
			v.F = append(v.F, e.unboxVal(st, id, a.Elem(), ctr))
		}
		return v
	}
	term := "(" + unboxFn(k) + " " + id + " " + intLit(int64(*ctr)) + ")"
	*ctr++
	if k == KInt {
		st.assume(rangeAssume(term, t))
	}
	return Val{K: k, T: term, Ty: t}
}

func (e *Engine) typeAssert(st *State, in *ssa.TypeAssert) {
	fr := st.top()
	x := st.operand(in.X)
	at := in.AssertedType
	var ok string
	var val Val
	if _, isI := at.Underlying().(*types.Interface); isI {
		// interface-to-interface: succeeds iff non-nil and dynamic type implements at
		iid := intLit(int64(e.typeTag(at)))
		if types.Identical(at.Underlying(), in.X.Type().Underlying()) || types.AssignableTo(in.X.Type(), at) {
			ok = sNot(sEq(x.T, "inil"))
		} else {
			ok = sAnd(sNot(sEq(x.T, "inil")), "(implements (itag "+x.T+") "+iid+")")
		}
		val = Val{K: KIface, T: x.T, Ty: at}
	} else {
		tag := intLit(int64(e.typeTag(at)))
		ok = sAnd("((_ is ibox) "+x.T+")", sEq("(itag "+x.T+")", tag))
		switch kindOf(at) {
		case KAddr:
			val = Val{K: KAddr, T: "(iaddr " + x.T + ")", Ty: at, Root: x.Root}
		case KInt:
			val = Val{K: KInt, T: "(ipay " + x.T + ")", Ty: at}
		case KBool:
			val = Val{K: KBool, T: "(= (ipay " + x.T + ") 1)", Ty: at}
		case KStr:
			val = Val{K: KStr, T: "(istr " + x.T + ")", Ty: at}
		default:
			ctr := 0
			val = e.unboxVal(st, "(ipay "+x.T+")", at, &ctr)
		}
	}
	okName := st.define("taok", "Bool", ok)
	if in.CommaOk {
		// on failure the value is the zero value
		z := st.zeroVal(at)
		v := valIte(okName, val, z)
		if val.K == KAddr {
			v.Root = val.Root
		}
		if kindOf(at) == KInt {
			st.assume(sImp(okName, rangeAssume(val.T, at)))
		}
		if kindOf(at) == KAddr {
			// dynamic value comes from the environment unless boxed from a private object
			if x.Root == "" {
				st.envAddr(v.T)
			}
		}
		fr.regs[in] = Val{K: KTuple, F: []Val{v, {K: KBool, T: okName}}, Ty: in.Type()}
		return
	}
	st.guard("assert", okName, in.Pos())
	if kindOf(at) == KInt {
		st.assume(rangeAssume(val.T, at))
	}
	if kindOf(at) == KAddr && x.Root == "" {
		st.envAddr(val.T)
	}
	fr.regs[in] = val
}

// ---------- maps ----------

func (e *Engine) mapKeySort(mt *types.Map) string {
	return sortOfKind(e.mapKeyKind(mt))
}

func (e *Engine) mapKeyKind(mt *types.Map) Kind {
	k := kindOf(mt.Key())
	switch k {
	case KInt, KStr, KAddr, KIface, KBool:
		return k
	case KArr:
		if a, ok := mt.Key().Underlying().(*types.Array); ok && a.Len() <= 64 {
			if ek := kindOf(a.Elem()); ek == KInt || ek == KBool {
				return KInt // folded by keyVal
			}
		}
	}
	e.unsupported("map key type %v", mt.Key())
	return KInt
}

// mapHeaps returns the domain heap name and, per value leaf, (heap name, kind)
type mapLeaf struct {
	heap string
	kind Kind
}

func (e *Engine) mapDomHeap(mt *types.Map) string { return "MD$" + e.mapKeySort(mt) }

// ---- maps whose values are structs (or small aggregates): one value heap per scalar leaf ----

type aggLeaf struct {
	kind Kind
	ty   types.Type
}

// aggLeaves flattens an aggregate type into its scalar leaves (same order as aggFlatten / aggBuild).
func aggLeaves(t types.Type, out *[]aggLeaf, depth int) bool {
	if depth > 4 {
		return false
	}
	switch k := kindOf(t); k {
	case KInt, KBool, KAddr, KStr, KIface, KReal:
		*out = append(*out, aggLeaf{k, t})
		return true
	case KSlice:
		*out = append(*out, aggLeaf{KAddr, nil}, aggLeaf{KInt, nil}, aggLeaf{KInt, nil}, aggLeaf{KInt, nil})
		return true
	case KStruct:
		st := structOf(t)
		if st.NumFields() > 24 {
			return false
		}
		for i := 0; i < st.NumFields(); i++ {
			if !aggLeaves(st.Field(i).Type(), out, depth+1) {
				return false
			}
		}
		return true
	}
	return false
}

func aggFlatten(v Val, t types.Type, out *[]string) {
	switch kindOf(t) {
	case KSlice:
		*out = append(*out, v.Base, v.Off, v.Len, v.Cap)
	case KStruct:
		st := structOf(t)
		for i := 0; i < st.NumFields(); i++ {
			if i < len(v.F) {
				aggFlatten(v.F[i], st.Field(i).Type(), out)
			}
		}
	default:
		*out = append(*out, v.T)
	}
}

func aggBuild(t types.Type, terms []string, pos *int) Val {
	switch k := kindOf(t); k {
	case KSlice:
		v := Val{K: KSlice, Base: terms[*pos], Off: terms[*pos+1], Len: terms[*pos+2], Cap: terms[*pos+3], Ty: t}
		*pos += 4
		return v
	case KStruct:
		st := structOf(t)
		v := Val{K: KStruct, Ty: t}
		for i := 0; i < st.NumFields(); i++ {
			v.F = append(v.F, aggBuild(st.Field(i).Type(), terms, pos))
		}
		return v
	default:
		v := Val{K: k, T: terms[*pos], Ty: t}
		*pos++
		return v
	}
}

// mapAggHeaps: value heaps of a map with struct values, one per leaf ("MS$K$V$<typetag>_<leaf>").
func (e *Engine) mapAggHeaps(mt *types.Map) ([]string, []aggLeaf, bool) {
	if kindOf(mt.Elem()) != KStruct {
		return nil, nil, false
	}
	var ls []aggLeaf
	if !aggLeaves(mt.Elem(), &ls, 0) || len(ls) == 0 || len(ls) > 40 {
		return nil, nil, false
	}
	tag := e.typeTag(mt.Elem())
	ks := e.mapKeySort(mt)
	var hs []string
	for i, l := range ls {
		hs = append(hs, fmt.Sprintf("MS$%s$%s$%d_%d", ks, sortOfKind(l.kind), tag, i))
	}
	return hs, ls, true
}

// mapValueHeaps: every heap that holds values of this map type (for frames and havoc).
func (e *Engine) mapValueHeaps(mt *types.Map) []string {
	if vh, _, sc := e.mapValHeap(mt); sc {
		return []string{vh}
	}
	if hs, _, ok := e.mapAggHeaps(mt); ok {
		return hs
	}
	return nil
}

func (e *Engine) mapValHeap(mt *types.Map) (string, Kind, bool) {
	k := kindOf(mt.Elem())
	switch k {
	case KInt, KBool, KAddr, KStr, KIface, KReal, KFunc:
		return "MV$" + e.mapKeySort(mt) + "$" + sortOfKind(k), k, true
	}
	return "", k, false
}

func (e *Engine) mapInitEmpty(st *State, addr string, mt *types.Map) {
	dh := st.heap(e.mapDomHeap(mt))
	ks := e.mapKeySort(mt)
	st.assume("(forall ((k " + ks + ")) (! (not (select (select " + dh + " " + addr + ") k)) :pattern ((select (select " + dh + " " + addr + ") k))))")
	st.assume("(= (select " + st.heap("ML") + " " + addr + ") 0)")
}

func (e *Engine) mapGet(st *State, m Val, key Val, mt *types.Map) (val Val, ok string) {
	key = e.keyVal(st, key, mt)
	dh := st.heap(e.mapDomHeap(mt))
	ok = st.define("mok", "Bool", sAnd(sNot(sEq(m.T, "null")), "(select (select "+dh+" "+m.T+") "+key.T+")"))
	vh, vk, scalar := e.mapValHeap(mt)
	if !scalar {
		if hs, ls, isAgg := e.mapAggHeaps(mt); isAgg {
			var terms []string
			for i, hn := range hs {
				raw := "(select (select " + st.heap(hn) + " " + m.T + ") " + key.T + ")"
				t := st.define("mval", sortOfKind(ls[i].kind), raw)
				if ls[i].kind == KInt && ls[i].ty != nil {
					st.assume(rangeAssume(t, ls[i].ty))
				}
				if ls[i].kind == KAddr {
					st.envAddr(t)
				}
				terms = append(terms, t)
			}
			pos := 0
			v := aggBuild(mt.Elem(), terms, &pos)
			return valIte(ok, v, st.zeroVal(mt.Elem())), ok
		}
		e.abstracted["map with aggregate values (fresh value on lookup)"] = true
		v := st.freshVal(mt.Elem(), "mval")
		return valIte(ok, v, st.zeroVal(mt.Elem())), ok
	}
	raw := "(select (select " + st.heap(vh) + " " + m.T + ") " + key.T + ")"
	t := st.define("mval", sortOfKind(vk), sIte(ok, raw, zeroTerm(vk)))
	if vk == KInt {
		st.assume(rangeAssume(t, mt.Elem()))
	}
	if vk == KAddr {
		st.envAddr(t)
		st.typeFact(t, mt.Elem())
	}
	return Val{K: vk, T: t, Ty: mt.Elem()}, ok
}

func (e *Engine) lookup(st *State, in *ssa.Lookup) {
	fr := st.top()
	x := st.operand(in.X)
	idx := st.operand(in.Index)
	if x.K == KStr {
		st.guard("index", sAnd(sLe("0", idx.T), sLt(idx.T, "(slen "+x.T+")")), in.Pos())
		t := st.define("ch", "Int", "(sat "+x.T+" "+idx.T+")")
		st.assume(sAnd(sLe("0", t), sLe(t, "255")))
		fr.regs[in] = Val{K: KInt, T: t, Ty: in.Type()}
		return
	}
	mt := in.X.Type().Underlying().(*types.Map)
	v, ok := e.mapGet(st, x, e.keyVal(st, idx, mt), mt)
	if in.CommaOk {
		fr.regs[in] = Val{K: KTuple, F: []Val{v, {K: KBool, T: ok}}, Ty: in.Type()}
	} else {
		fr.regs[in] = v
	}
}

// keyVal: map keys of array type ([N]byte identifiers) are folded into one integer by an injective pairing function
// (akey2, axiomatised in the preamble): equal arrays give equal keys, different arrays different keys.
func (e *Engine) keyVal(st *State, k Val, mt *types.Map) Val {
	if k.K == KArr {
		t := "0"
		for _, f := range k.F {
			if f.K != KInt && f.K != KBool {
				e.unsupported("map key array with non-scalar elements")
				return Val{K: KInt, T: "0"}
			}
			t = "(akey2 " + t + " " + f.T + ")"
		}
		return Val{K: KInt, T: t, Ty: k.Ty}
	}
	return k
}

func (e *Engine) mapUpdate(st *State, in *ssa.MapUpdate) {
	m := st.operand(in.Map)
	mt := in.Map.Type().Underlying().(*types.Map)
	key := e.keyVal(st, st.operand(in.Key), mt)
	val := st.operand(in.Value)
	st.guard("mapnil", sNot(sEq(m.T, "null")), in.Pos())
	e.checkAssignsMap(st, m, in.Pos())
	st.escape(val)
	st.escape(key)
	dhn := e.mapDomHeap(mt)
	dh := st.heap(dhn)
	was := st.define("mhad", "Bool", "(select (select "+dh+" "+m.T+") "+key.T+")")
	st.setHeap(dhn, "(store "+dh+" "+m.T+" (store (select "+dh+" "+m.T+") "+key.T+" true))")
	ml := st.heap("ML")
	st.setHeap("ML", "(store "+ml+" "+m.T+" "+sIte(was, "(select "+ml+" "+m.T+")", "(+ (select "+ml+" "+m.T+") 1)")+")")
	vh, vk, scalar := e.mapValHeap(mt)
	if !scalar {
		if hs, _, isAgg := e.mapAggHeaps(mt); isAgg {
			var terms []string
			aggFlatten(val, mt.Elem(), &terms)
			if len(terms) == len(hs) {
				for i, hn := range hs {
					h := st.heap(hn)
					st.setHeap(hn, "(store "+h+" "+m.T+" (store (select "+h+" "+m.T+") "+key.T+" "+terms[i]+"))")
				}
				return
			}
		}
		e.abstracted["map with aggregate values (update not recorded)"] = true
		return
	}
	term := val.T
	if vk == KFunc {
		term = e.funcID(val)
	}
	h := st.heap(vh)
	st.setHeap(vh, "(store "+h+" "+m.T+" (store (select "+h+" "+m.T+") "+key.T+" "+term+"))")
}

func (e *Engine) mapDelete(st *State, m, key Val, mt *types.Map, pos token.Pos) {
	key = e.keyVal(st, key, mt)
	e.checkAssignsMap(st, m, pos)
	dhn := e.mapDomHeap(mt)
	dh := st.heap(dhn)
	was := st.define("mhad", "Bool", sAnd(sNot(sEq(m.T, "null")), "(select (select "+dh+" "+m.T+") "+key.T+")"))
	st.setHeap(dhn, "(store "+dh+" "+m.T+" (store (select "+dh+" "+m.T+") "+key.T+" false))")
	ml := st.heap("ML")
	st.setHeap("ML", "(store "+ml+" "+m.T+" "+sIte(was, "(- (select "+ml+" "+m.T+") 1)", "(select "+ml+" "+m.T+")")+")")
}

func (e *Engine) next(st *State, in *ssa.Next) {
	fr := st.top()
	it := st.iters[in.Iter]
	tp := in.Type().(*types.Tuple)
	if it == nil || it.isStr {
		fr.regs[in] = st.freshVal(tp, "next")
		return
	}
	rg := in.Iter.(*ssa.Range)
	mt := rg.X.Type().Underlying().(*types.Map)
	ks := e.mapKeySort(mt)
	kk := e.mapKeyKind(mt)
	it.keyKind = kk
	ok := st.declare("nextok", "Bool")
	k := st.declare("nextk", ks)
	dh := st.heap(e.mapDomHeap(mt))
	m := it.m
	dom := "(select (select " + dh + " " + m.T + ") "
	// ok ==> key in map and not visited; !ok ==> every key of the map visited
	st.assume(sImp(ok, sAnd(sNot(sEq(m.T, "null")), dom+k+")", sNot("(select "+it.visited+" "+k+")"))))
	st.assume("(forall ((k " + ks + ")) (! (=> (and (not " + ok + ") (not (= " + m.T + " null)) " + dom + "k)) (select " + it.visited + " k)) :pattern (" + dom + "k))))")
	nv := st.define("visited", "(Array "+ks+" Bool)", sIte(ok, "(store "+it.visited+" "+k+" true)", it.visited))
	it.visited = nv
	if it.started == "" {
		it.started = "false"
	}
	it.started = st.define("started", "Bool", sOr(it.started, ok))
	keyV := Val{K: kk, T: k, Ty: tp.At(1).Type()}
	if kk == KInt {
		st.assume(rangeAssume(k, mt.Key()))
	}
	var valV Val
	if _, isInvalid := tp.At(2).Type().(*types.Basic); isInvalid && tp.At(2).Type().(*types.Basic).Kind() == types.Invalid {
		valV = Val{K: KUnit}
	} else {
		vh, vk, scalar := e.mapValHeap(mt)
		if scalar {
			t := st.define("nextv", sortOfKind(vk), "(select (select "+st.heap(vh)+" "+m.T+") "+k+")")
			valV = Val{K: vk, T: t, Ty: mt.Elem()}
			if vk == KAddr {
				st.envAddr(t)
			}
			if vk == KInt {
				st.assume(rangeAssume(t, mt.Elem()))
			}
		} else if hs, ls, isAgg := e.mapAggHeaps(mt); isAgg {
			var terms []string
			for i, hn := range hs {
				t := st.define("nextv", sortOfKind(ls[i].kind), "(select (select "+st.heap(hn)+" "+m.T+") "+k+")")
				if ls[i].kind == KInt && ls[i].ty != nil {
					st.assume(rangeAssume(t, ls[i].ty))
				}
				if ls[i].kind == KAddr {
					st.envAddr(t)
				}
				terms = append(terms, t)
			}
			pos := 0
			valV = aggBuild(mt.Elem(), terms, &pos)
			// slices inside the value: usual shape facts
			st.sliceFacts(valV)
		} else {
			valV = st.freshVal(mt.Elem(), "nextv")
		}
	}
	fr.regs[in] = Val{K: KTuple, F: []Val{{K: KBool, T: ok}, keyV, valV}, Ty: tp}
}

// mapWitness: a map whose length is positive has a key (a fresh witness constant).
func (e *Engine) mapWitness(st *State, m string, mt *types.Map) {
	if st.quant > 0 || m == "null" {
		return
	}
	w := st.declare("mwit", e.mapKeySort(mt))
	st.assume(sImp("(> (select "+st.heap("ML")+" "+m+") 0)", sAnd(sNot(sEq(m, "null")), "(select (select "+st.heap(e.mapDomHeap(mt))+" "+m+") "+w+")")))
}

func (e *Engine) selectOp(st *State, in *ssa.Select) {
	fr := st.top()
	e.abstracted["select (nondeterministic arm choice, no timing)"] = true
	tp := in.Type().(*types.Tuple)
	idx := st.declare("selidx", "Int")
	lo := "0"
	if !in.Blocking {
		lo = "(- 1)"
	}
	st.assume(sAnd(sLe(lo, idx), sLt(idx, intLit(int64(len(in.States))))))
	v := Val{K: KTuple, Ty: tp}
	v.F = append(v.F, Val{K: KInt, T: idx})
	for i := 1; i < tp.Len(); i++ {
		v.F = append(v.F, st.freshVal(tp.At(i).Type(), "selrecv"))
	}
	fr.regs[in] = v
}

// callOrdinal: ordinal (1-based, source order) of instr among the calls of fn whose callee key contains sub.
func (e *Engine) callOrdinal(fn *ssa.Function, instr ssa.Instruction, sub string) int {
	type cp struct {
		in  ssa.Instruction
		pos token.Pos
		idx int
	}
	var list []cp
	n := 0
	for _, b := range fn.Blocks {
		for _, in := range b.Instrs {
			n++
			var cc *ssa.CallCommon
			switch c := in.(type) {
			case *ssa.Call:
				cc = &c.Call
			case *ssa.Go:
				cc = &c.Call
			case *ssa.Defer:
				cc = &c.Call
			default:
				continue
			}
			if _, isB := cc.Value.(*ssa.Builtin); isB && !cc.IsInvoke() {
				continue
			}
			var key string
			if cc.IsInvoke() {
				key = methodKey(cc.Value.Type(), cc.Method.Name())
			} else if f := cc.StaticCallee(); f != nil {
				key = keyOf(f)
			} else {
				key = "<dynamic func value>"
			}
			if sub == "*" || strings.Contains(key, sub) {
				list = append(list, cp{in, in.Pos(), n})
			}
		}
	}
	for i := 1; i < len(list); i++ {
		for j := i; j > 0 && (list[j].pos < list[j-1].pos || (list[j].pos == list[j-1].pos && list[j].idx < list[j-1].idx)); j-- {
			list[j], list[j-1] = list[j-1], list[j]
		}
	}
	for i, x := range list {
		if x.in == instr {
			return i + 1
		}
	}
	return 0
}

func (e *Engine) runHooks(st *State, fr *Frame, instr ssa.Instruction, key, when string) {
	fc := fr.contract
	if fc == nil || len(fc.Hooks) == 0 {
		return
	}
	for _, h := range fc.Hooks {
		if h.When != when {
			continue
		}
		if h.Callee != "*" && !strings.Contains(key, h.Callee) {
			continue
		}
		if h.ExecOnly && (strings.HasPrefix(key, "defer ") || strings.HasPrefix(key, "go ")) {
			continue
		}
		if h.Ord > 0 && e.callOrdinal(fr.fn, instr, h.Callee) != h.Ord {
			continue
		}
		env := e.frameEnv(st, fr)
		for i, a := range e.hookArgs {
			env.vars[fmt.Sprintf("arg%d", i)] = a
		}
		if when == "after" && e.hookRes != nil {
			// the call's results: res (single result) or res0, res1, ...
			if e.hookRes.K == KTuple {
				for i, f := range e.hookRes.F {
					env.vars[fmt.Sprintf("res%d", i)] = f
				}
			} else if e.hookRes.K != KUnit {
				env.vars["res"] = *e.hookRes
				env.vars["res0"] = *e.hookRes
			}
		}
		switch h.Kind {
		case "snap":
			v, err := e.evalC(st, env, h.Clause.Expr)
			if err != nil {
				e.unsupported("atcall snap %s in %s: %v", h.Name, fc.Key, err)
				continue
			}
			if os.Getenv("GOVC_DEBUGM") != "" {
				fmt.Fprintf(os.Stderr, "snap %s in %s = %s\n", h.Name, fc.Key, v.String())
			}
			fr.names[h.Name] = v
			delete(fr.nameAddr, h.Name)
			if fr.snaps == nil {
				fr.snaps = map[string]bool{}
			}
			fr.snaps[h.Name] = true
			delete(fr.nameDef, h.Name)
		case "assert":
			t, err := e.evalBool(st, env, h.Clause.Expr)
			if err != nil {
				e.unsupported("atcall assert %d in %s: %v", h.Clause.Ord, fc.Key, err)
				continue
			}
			ordTxt := ""
			if h.Ord > 0 {
				ordTxt = fmt.Sprintf("#%d", h.Ord)
			}
			name := fmt.Sprintf("%s.atcall.%s%s.%s.%d", fc.Key, h.Callee, ordTxt, when, h.Clause.Ord)
			if h.Ord == 0 {
				// one obligation per call site: name it by the callee and its ordinal among all calls
				name = fmt.Sprintf("%s.atcall.%s.%s.%d[%s#%d]", fc.Key, h.Callee, when, h.Clause.Ord, lastSeg(key), e.callOrdinal(fr.fn, instr, lastSegKey(key)))
			}
			st.addCheck(&Check{Name: name, Kind: "atcall", Goal: t, Pos: h.Clause.Where, Tags: h.Clause.Tags, Func: fc.Key, Clause: h.Clause.Text, Bounded: st.boundedNow()})
			st.assume(t)
		}
	}
}

func lastSegKey(key string) string { return key }

// hookSites: the number of call sites of fn a hook can fire at (static count, same keys as runHooks / callOrdinal).
// A hook that can fire nowhere no longer binds to the code: its clause would silently stop being checked.
func (e *Engine) hookSites(fn *ssa.Function, h *CallHook) int {
	n := 0
	for _, b := range fn.Blocks {
		for _, in := range b.Instrs {
			var cc *ssa.CallCommon
			prefix := ""
			switch c := in.(type) {
			case *ssa.Call:
				cc = &c.Call
			case *ssa.Go:
				cc = &c.Call
				prefix = "go "
			case *ssa.Defer:
				cc = &c.Call
				prefix = "defer "
			case *ssa.Select:
				if c.Blocking && h.Callee == "<select>" && h.Ord == 0 {
					n++
				}
				continue
			default:
				continue
			}
			if bi, isB := cc.Value.(*ssa.Builtin); isB && !cc.IsInvoke() {
				if bi.Name() == "close" && h.Callee == "<close>" && h.Ord == 0 {
					n++
				}
				continue
			}
			var key string
			if cc.IsInvoke() {
				key = methodKey(cc.Value.Type(), cc.Method.Name())
			} else if f := cc.StaticCallee(); f != nil {
				key = keyOf(f)
			} else {
				key = "<dynamic func value>"
			}
			if h.Ord > 0 {
				if strings.Contains(key, h.Callee) {
					n++
				}
				continue
			}
			if h.Callee == "*" || strings.Contains(prefix+key, h.Callee) {
				n++
			}
		}
	}
	return n
}

// ---------- summaries of side-effect-free callees ----------

type summaryOut struct {
	tail   *node
	res    []Val
	wmBase string
	wmK    int
}

type summaryCtx struct {
	base    int
	outs    []summaryOut
	dropped int
}

// summarizable: the function (and everything it calls) neither writes memory nor allocates nor has loops,
// so its effect is its result, and all its paths can be folded into one ite-expression.
func (e *Engine) summarizable(fn *ssa.Function, seen map[*ssa.Function]bool) bool {
	if fn == nil || fn.Blocks == nil || seen[fn] {
		return false
	}
	seen[fn] = true
	if len(e.loops(fn).list) > 0 || fn.Recover != nil {
		return false
	}
	n := 0
	for _, b := range fn.Blocks {
		for _, in := range b.Instrs {
			n++
			switch x := in.(type) {
			case *ssa.Store, *ssa.MapUpdate, *ssa.Alloc, *ssa.MakeSlice, *ssa.MakeMap, *ssa.MakeChan, *ssa.MakeClosure, *ssa.Defer, *ssa.Go,
				*ssa.Send, *ssa.Select, *ssa.Panic, *ssa.Range, *ssa.Next, *ssa.RunDefers, *ssa.MakeInterface:
				if _, isMI := in.(*ssa.MakeInterface); isMI {
					continue
				}
				return false
			case *ssa.Call:
				if b, ok := x.Call.Value.(*ssa.Builtin); ok && !x.Call.IsInvoke() {
					if b.Name() == "len" || b.Name() == "cap" || b.Name() == "min" || b.Name() == "max" {
						continue
					}
					return false
				}
				if x.Call.IsInvoke() {
					return false
				}
				cal := x.Call.StaticCallee()
				if cal == nil {
					return false
				}
				cc := e.lookupContract(keyOf(cal))
				if cc != nil {
					return false
				}
				if !e.summarizable(cal, seen) {
					return false
				}
			case *ssa.UnOp:
				if x.Op == token.ARROW {
					return false
				}
			}
		}
	}
	return n < 200
}

func (e *Engine) summarize(st *State, callee *ssa.Function, c *FuncContract, fnv Val, args []Val, retTo ssa.Value) (Val, bool) {
	sub := st.clone()
	start := st.tail
	nf := &Frame{fn: callee, regs: map[ssa.Value]Val{}, block: callee.Blocks[0], names: map[string]Val{}, nameAddr: map[string]bool{},
		cut: map[*ssa.BasicBlock]bool{}, unrolled: map[*ssa.BasicBlock]int{}, contract: c, params: args}
	for i, p := range callee.Params {
		if i < len(args) {
			v := args[i]
			v.Ty = p.Type()
			nf.regs[p] = v
			nf.names[p.Name()] = v
		}
	}
	for i, fv := range callee.FreeVars {
		if i < len(fnv.Bind) {
			nf.regs[fv] = fnv.Bind[i]
		} else {
			return Val{}, false
		}
	}
	sub.frames = append(sub.frames, nf)
	sc := &summaryCtx{base: len(sub.frames)}
	sub.summary = sc
	savedPaths := e.pathCount
	e.explore(sub, 0, nil, 0)
	e.pathCount = savedPaths
	if len(sc.outs) == 0 || len(sc.outs) > 64 {
		return Val{}, false
	}
	// hoist declarations/definitions; turn assertions into path conditions
	emitted := map[*node]bool{}
	var pcs []string
	for _, o := range sc.outs {
		var nodes []*node
		for n := o.tail; n != nil && n != start; n = n.prev {
			nodes = append(nodes, n)
		}
		var conj, facts []string
		for i := len(nodes) - 1; i >= 0; i-- {
			n := nodes[i]
			if n.check != nil {
				return Val{}, false // obligations inside: fall back to ordinary inlining
			}
			if strings.HasPrefix(n.text, "(assert ") {
				if n.branch {
					conj = append(conj, n.text[8:len(n.text)-1])
				} else {
					facts = append(facts, n.text[8:len(n.text)-1])
				}
				continue
			}
			if !emitted[n] {
				emitted[n] = true
				st.emit(n.text)
			}
		}
		pc := st.define("spc", "Bool", sAnd(conj...))
		pcs = append(pcs, pc)
		for _, f := range facts {
			st.emit("(assert " + sImp(pc, f) + ")")
		}
	}
	nres := len(sc.outs[0].res)
	var rs []Val
	for i := 0; i < nres; i++ {
		r := sc.outs[len(sc.outs)-1].res[i]
		for k := len(sc.outs) - 2; k >= 0; k-- {
			a := sc.outs[k].res[i]
			if a.K != r.K {
				return Val{}, false
			}
			nr := valIte(pcs[k], a, r)
			if a.Root != r.Root {
				nr.Root = ""
			} else {
				nr.Root = r.Root
			}
			nr.NonNil = a.NonNil && r.NonNil
			r = nr
		}
		rs = append(rs, r)
	}
	// name the folded results to keep terms small
	for i := range rs {
		rs[i] = e.nameVal(st, rs[i], "sum")
	}
	st.assume(sOr(pcs...))
	switch len(rs) {
	case 0:
		return Val{K: KUnit}, true
	case 1:
		return rs[0], true
	}
	var ty types.Type
	if retTo != nil {
		ty = retTo.Type()
	}
	return Val{K: KTuple, F: rs, Ty: ty}, true
}

func (e *Engine) nameVal(st *State, v Val, hint string) Val {
	switch v.K {
	case KInt, KBool, KAddr, KStr, KIface, KReal:
		if strings.HasPrefix(v.T, "(ite ") {
			v.T = st.define(hint, sortOfKind(v.K), v.T)
		}
	case KSlice:
		if strings.HasPrefix(v.Base, "(ite ") {
			v.Base = st.define(hint, "Addr", v.Base)
			v.Off = st.define(hint, "Int", v.Off)
			v.Len = st.define(hint, "Int", v.Len)
			v.Cap = st.define(hint, "Int", v.Cap)
		}
	case KStruct, KTuple, KArr:
		f := make([]Val, len(v.F))
		for i := range v.F {
			f[i] = e.nameVal(st, v.F[i], hint)
		}
		v.F = f
	}
	return v
}

func hasTag(tags []string, t string) bool {
	for _, x := range tags {
		if x == t {
			return true
		}
	}
	return false
}
