package main

import (
	"fmt"
	"golang.org/x/tools/go/packages"
	"golang.org/x/tools/go/ssa"
	"golang.org/x/tools/go/ssa/ssautil"
)

func main() {
	_ = packages.Load
	_ = ssa.GlobalDebug
	_ = ssautil.AllPackages
	fmt.Println("ok")
}
