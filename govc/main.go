package main

import (
	"encoding/json"
	"flag"
	"fmt"
	"os"
	"os/exec"
	"path/filepath"
	"runtime"
	"sort"
	"strings"
	"time"
)

type VerifyReport struct {
	Property  string        `json:"property"`
	Tier      string        `json:"tier"`
	Funcs     []*FuncReport `json:"functions"`
	Obls      []*OblResult  `json:"obligations"`
	LoadSecs  float64       `json:"load_secs"`
	TotalSecs float64       `json:"total_secs"`
	Axioms    int           `json:"axioms"`
	Errors    []string      `json:"errors,omitempty"`
}

func main() {
	if len(os.Args) < 2 {
		fmt.Fprintln(os.Stderr, "usage: govc verify|check|selftest ...")
		os.Exit(2)
	}
	switch os.Args[1] {
	case "verify":
		cmdVerify(os.Args[2:])
	case "check":
		cmdCheck(os.Args[2:])
	case "bvlemmas":
		ok, out := proveBVLemmas()
		fmt.Print(out)
		if !ok {
			os.Exit(1)
		}
	default:
		fmt.Fprintln(os.Stderr, "unknown subcommand")
		os.Exit(2)
	}
}

// contractPackages scans the repository for contract files that mention the property tag and returns package patterns.
func contractPackages(repo, prop string) ([]string, error) {
	var pats []string
	err := filepath.Walk(repo, func(p string, info os.FileInfo, err error) error {
		if err != nil {
			return nil
		}
		if info.IsDir() && (info.Name() == ".git" || info.Name() == "node_modules") {
			return filepath.SkipDir
		}
		if info.Name() != "zz_verif_contracts.go" {
			return nil
		}
		b, err := os.ReadFile(p)
		if err != nil {
			return nil
		}
		if prop == "" || strings.Contains(string(b), "@"+prop) {
			pats = append(pats, filepath.Dir(p))
		}
		return nil
	})
	sort.Strings(pats)
	return pats, err
}

func gitStatus(repo string) string {
	out, _ := exec.Command("git", "-C", repo, "status", "--porcelain").Output()
	return string(out)
}

func runVerify(repo, prop, tier string, funcs []string, speclib string) (*VerifyReport, error) {
	t0 := time.Now()
	rep := &VerifyReport{Property: prop, Tier: tier}
	dirs, err := contractPackages(repo, prop)
	if err != nil {
		return nil, err
	}
	if len(dirs) == 0 {
		return nil, fmt.Errorf("no contract file in %s mentions @%s", repo, prop)
	}
	before := gitStatus(repo)
	e, cleanup, err := loadEngine(repo, dirs, speclib)
	if err != nil {
		return nil, err
	}
	defer cleanup()
	rep.LoadSecs = time.Since(t0).Seconds()
	rep.Axioms = e.axiomCount
	rep.Errors = append(rep.Errors, e.axiomErrors...)
	cfg := &RunCfg{Tier: tier, PerCheckMs: 10000, Workers: runtime.NumCPU()}
	if tier == "thorough" {
		cfg.PerCheckMs = 60000
		cfg.Second = true
	}
	var keys []string
	for k, fc := range e.contracts {
		if fc.File == "" || !strings.HasSuffix(fc.File, "zz_verif_contracts.go") {
			continue
		}
		if fc.Trusted && len(fc.NeverReads) == 0 && len(fc.CallsOnly) == 0 && fc.Cancellable == "" && len(fc.Hooks) == 0 {
			continue
		}
		if len(funcs) > 0 {
			ok := false
			for _, f := range funcs {
				if strings.Contains(k, f) {
					ok = true
				}
			}
			if !ok {
				continue
			}
		} else if prop != "" && !fc.Tags[prop] {
			continue
		}
		keys = append(keys, k)
	}
	sort.Strings(keys)
	done := map[string]bool{}
	for len(keys) > 0 {
		var next []string
		for _, k := range keys {
			if done[k] {
				continue
			}
			done[k] = true
			fr := e.verifyFunc(e.contracts[k], cfg)
			rep.Funcs = append(rep.Funcs, fr)
			rep.Obls = append(rep.Obls, fr.Obligations...)
			// contracts of module functions that this proof relied on are verified as well (no silent assumptions);
			// interface-method contracts and trusted ones stay assumptions and are listed in the evidence
			for _, u := range fr.Specs {
				uk := strings.TrimSuffix(u, " (contract verified against its body)")
				fc := e.contracts[uk]
				if fc == nil || done[uk] || fc.Trusted || !strings.HasSuffix(fc.File, "zz_verif_contracts.go") {
					continue
				}
				if fn := e.findFunc(uk); fn == nil || fn.Blocks == nil {
					continue
				}
				if len(funcs) > 0 {
					continue
				}
				next = append(next, uk)
			}
		}
		sort.Strings(next)
		keys = next
	}
	if after := gitStatus(repo); after != before {
		rep.Errors = append(rep.Errors, "the check modified the repository working tree: "+after)
	}
	rep.TotalSecs = time.Since(t0).Seconds()
	return rep, nil
}

func cmdVerify(args []string) {
	fs := flag.NewFlagSet("verify", flag.ExitOnError)
	repo := fs.String("repo", "/repo", "repository root")
	prop := fs.String("prop", "", "property id")
	tier := fs.String("tier", "quick", "quick|thorough")
	fn := fs.String("func", "", "comma-separated substrings of function keys")
	speclib := fs.String("speclib", "/verif/speclib", "spec library dir")
	out := fs.String("out", "", "write JSON report here")
	verbose := fs.Bool("v", false, "verbose")
	fs.Parse(args)
	var funcs []string
	if *fn != "" {
		funcs = strings.Split(*fn, ",")
	}
	rep, err := runVerify(*repo, *prop, *tier, funcs, *speclib)
	if err != nil {
		fmt.Fprintln(os.Stderr, "govc:", err)
		os.Exit(2)
	}
	bad := 0
	for _, o := range rep.Obls {
		mark := "ok  "
		if o.Status == "failed" || o.Status == "undecided" {
			mark = "FAIL"
			bad++
		}
		if *verbose || mark == "FAIL" {
			fmt.Printf("%s %-10s %s [%s %s %.2fs paths=%d] %s\n", mark, o.Status, o.Name, o.Solver, o.Answer, o.Secs, o.Paths, o.Clause)
			if o.Model != "" && mark == "FAIL" {
				fmt.Println("     model: " + strings.ReplaceAll(strings.TrimSpace(o.Model), "\n", "\n            "))
			}
		}
	}
	for _, f := range rep.Funcs {
		fmt.Printf("func %s: %d obligations, %d paths, %d feasible returns, unsupported=%v\n", f.Key, len(f.Obligations), f.Paths, f.ReturnPaths, f.Unsupported)
		if *verbose {
			fmt.Printf("   inlined=%v\n   specs=%v\n   havocked=%v\n   abstracted=%v\n", f.Inlined, f.Specs, f.Havocked, f.Abstracted)
		}
	}
	fmt.Printf("total: %d obligations, %d not discharged, load %.1fs total %.1fs, errors=%v\n", len(rep.Obls), bad, rep.LoadSecs, rep.TotalSecs, rep.Errors)
	for _, se := range solverErrs {
		fmt.Println("solver error: " + se)
	}
	if *out != "" {
		b, _ := json.MarshalIndent(rep, "", " ")
		os.WriteFile(*out, b, 0o644)
	}
	if bad > 0 {
		os.Exit(1)
	}
}
