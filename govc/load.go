package main

import (
	"fmt"
	"go/token"
	"go/types"
	"os"
	"path/filepath"
	"strings"

	"golang.org/x/tools/go/packages"
	"golang.org/x/tools/go/ssa"
	"golang.org/x/tools/go/ssa/ssautil"
)

const modulePath = "github.com/refraction-networking/conjure"

var repoModules = []string{".", "cmd/application", "cmd/registration-server", "util/station-debug"}

// privateWorkspace creates a scratch go.work so that no go command ever writes into the repository.
func privateWorkspace(repo string) (dir string, env []string, err error) {
	dir, err = os.MkdirTemp("", "govc-work-")
	if err != nil {
		return "", nil, err
	}
	var sb strings.Builder
	sb.WriteString("go 1.22.0\n\ntoolchain go1.23.1\n\nuse (\n")
	for _, m := range repoModules {
		p := filepath.Join(repo, m)
		if _, err := os.Stat(filepath.Join(p, "go.mod")); err == nil {
			sb.WriteString("\t" + p + "\n")
		}
	}
	sb.WriteString(")\n")
	if err := os.WriteFile(filepath.Join(dir, "go.work"), []byte(sb.String()), 0o644); err != nil {
		return "", nil, err
	}
	if b, err := os.ReadFile(filepath.Join(repo, "go.work.sum")); err == nil {
		os.WriteFile(filepath.Join(dir, "go.work.sum"), b, 0o644)
	}
	env = append(os.Environ(), "GOWORK="+filepath.Join(dir, "go.work"), "GOFLAGS=", "GOPROXY=off", "GOSUMDB=off", "GOTOOLCHAIN=local", "CGO_ENABLED=1")
	return dir, env, nil
}

func loadEngine(repo string, patterns []string, speclibDir string) (*Engine, func(), error) {
	wdir, env, err := privateWorkspace(repo)
	if err != nil {
		return nil, nil, err
	}
	cleanup := func() { os.RemoveAll(wdir) }
	fset := token.NewFileSet()
	cfg := &packages.Config{
		Mode: packages.NeedName | packages.NeedFiles | packages.NeedCompiledGoFiles | packages.NeedImports | packages.NeedDeps |
			packages.NeedTypes | packages.NeedSyntax | packages.NeedTypesInfo | packages.NeedTypesSizes | packages.NeedModule,
		Dir: repo, Fset: fset, BuildFlags: []string{"-tags=verif"}, Env: env,
	}
	pkgs, err := packages.Load(cfg, patterns...)
	if err != nil {
		cleanup()
		return nil, nil, err
	}
	var errs []string
	packages.Visit(pkgs, nil, func(p *packages.Package) {
		if strings.HasPrefix(p.PkgPath, modulePath) {
			for _, e := range p.Errors {
				errs = append(errs, e.Error())
			}
		}
	})
	if len(errs) > 0 {
		cleanup()
		return nil, nil, fmt.Errorf("package errors: %s", strings.Join(errs, "; "))
	}
	prog, _ := ssautil.AllPackages(pkgs, ssa.GlobalDebug|ssa.InstantiateGenerics)
	for _, p := range prog.AllPackages() {
		if strings.HasPrefix(p.Pkg.Path(), modulePath) {
			p.Build()
		}
	}
	e := &Engine{prog: prog, pkgs: pkgs, fset: fset, contracts: map[string]*FuncContract{}, ghosts: map[string]*GhostDecl{},
		typeTags: map[string]int{}, strLits: map[string]string{}, globalIDs: map[*ssa.Global]int{}, funcIDs: map[*ssa.Function]int{},
		closures: map[string]Val{}, ghostHeaps: map[string]string{}, errConsts: map[*ssa.Global]string{}, modulePath: modulePath,
		loopCache: map[*ssa.Function]*loopInfo{}, maxPaths: 4000, initHeaps: map[string]string{}}
	e.buildFuncIndex()
	// contract files of the loaded module packages
	var files []*ContractFile
	seen := map[string]bool{}
	packages.Visit(pkgs, nil, func(p *packages.Package) {
		if !strings.HasPrefix(p.PkgPath, modulePath) {
			return
		}
		for _, f := range p.GoFiles {
			if filepath.Base(f) == "zz_verif_contracts.go" && !seen[f] {
				seen[f] = true
				cf, err := parseContractFile(f, p.PkgPath, false)
				if err != nil {
					errs = append(errs, err.Error())
					continue
				}
				files = append(files, cf)
			}
		}
	})
	specs, _ := filepath.Glob(filepath.Join(speclibDir, "*.spec"))
	for _, f := range specs {
		cf, err := parseContractFile(f, "", true)
		if err != nil {
			errs = append(errs, err.Error())
			continue
		}
		files = append(files, cf)
	}
	if len(errs) > 0 {
		cleanup()
		return nil, nil, fmt.Errorf("contract errors: %s", strings.Join(errs, "; "))
	}
	e.files = files
	for _, cf := range files {
		for _, g := range cf.Ghosts {
			if _, dup := e.ghosts[g.Name]; dup {
				errs = append(errs, fmt.Sprintf("%s: duplicate ghost %s", g.Where, g.Name))
			}
			e.ghosts[g.Name] = g
			if g.IsState {
				srt, _, _, err := e.ghostStateSort(g)
				if err != nil {
					if strings.Contains(err.Error(), "unknown package") && !strings.Contains(g.Where, "zz_verif_contracts.go") {
						// spec-library state over a package this program does not import: nothing can refer to it
						delete(e.ghosts, g.Name)
						continue
					}
					errs = append(errs, fmt.Sprintf("%s: %v", g.Where, err))
					continue
				}
				e.ghostHeaps["G$"+g.Name] = srt
			}
		}
	}
	for _, cf := range files {
		for _, fc := range cf.Funcs {
			fc.Key = e.contractKey(fc)
			if _, dup := e.contracts[fc.Key]; dup {
				errs = append(errs, fmt.Sprintf("%s: duplicate contract for %s", fc.Where, fc.Key))
			}
			e.contracts[fc.Key] = fc
		}
	}
	if len(errs) > 0 {
		cleanup()
		return nil, nil, fmt.Errorf("contract errors: %s", strings.Join(errs, "; "))
	}
	e.guards = map[string]*guardInfo{}
	for _, cf := range files {
		for _, g := range cf.Guards {
			pk := e.pkgByPath(cf.PkgPath)
			if pk == nil {
				continue
			}
			tn, ok := pk.Scope().Lookup(g.Type).(*types.TypeName)
			if !ok {
				return nil, nil, fmt.Errorf("%s: guardedby: unknown type %s", g.Where, g.Type)
			}
			stt, ok := tn.Type().Underlying().(*types.Struct)
			if !ok {
				return nil, nil, fmt.Errorf("%s: guardedby: %s is not a struct", g.Where, g.Type)
			}
			mi := -1
			for i := 0; i < stt.NumFields(); i++ {
				if stt.Field(i).Name() == g.Mutex {
					mi = i
				}
			}
			if mi < 0 {
				return nil, nil, fmt.Errorf("%s: guardedby: no field %s", g.Where, g.Mutex)
			}
			for _, f := range g.Fields {
				found := false
				for i := 0; i < stt.NumFields(); i++ {
					if stt.Field(i).Name() == f {
						found = true
					}
				}
				if !found {
					return nil, nil, fmt.Errorf("%s: guardedby: no field %s", g.Where, f)
				}
				e.guards[cf.PkgPath+"."+g.Type+"."+f] = &guardInfo{mutexIdx: mi, tags: g.Tags, typ: g.Type + "." + g.Mutex}
			}
		}
	}
	e.prepareAxioms()
	return e, cleanup, nil
}

func (e *Engine) contractKey(fc *FuncContract) string {
	if fc.IsLemma {
		return "lemma." + lastSeg(fc.PkgPath) + "." + fc.Name
	}
	if fc.RecvType != "" {
		rt := strings.TrimPrefix(strings.TrimSpace(fc.RecvType), "*")
		if i := strings.Index(rt, "."); i >= 0 {
			if p := e.resolvePkg(rt[:i], fc.PkgPath, fc.Imports); p != nil {
				return "(" + p.Path() + "." + rt[i+1:] + ")." + fc.Name
			}
			return "(" + rt + ")." + fc.Name
		}
		if fc.PkgPath == "" {
			return "(" + rt + ")." + fc.Name
		}
		return "(" + fc.PkgPath + "." + rt + ")." + fc.Name
	}
	if fc.Qual != "" {
		if p := e.resolvePkg(fc.Qual, fc.PkgPath, fc.Imports); p != nil {
			return p.Path() + "." + fc.Name
		}
		return fc.Qual + "." + fc.Name
	}
	return fc.PkgPath + "." + fc.Name
}

// globalConst: a package-level variable of scalar type that is assigned a constant in the package initialiser and never
// stored to elsewhere is read as that constant.
func (e *Engine) globalConst(g *ssa.Global) (*ssa.Const, bool) {
	if v, ok := e.gconsts[g]; ok {
		return v, v != nil
	}
	if e.gconsts == nil {
		e.gconsts = map[*ssa.Global]*ssa.Const{}
	}
	e.gconsts[g] = nil
	if g.Pkg == nil || !e.storedOnlyInInit(g) {
		return nil, false
	}
	var found *ssa.Const
	n := 0
	if init := g.Pkg.Func("init"); init != nil {
		for _, b := range init.Blocks {
			for _, in := range b.Instrs {
				if s, ok := in.(*ssa.Store); ok && s.Addr == g {
					n++
					if c, ok := s.Val.(*ssa.Const); ok {
						found = c
					}
				}
			}
		}
	}
	if n == 1 && found != nil {
		e.gconsts[g] = found
		return found, true
	}
	return nil, false
}

// errConst: package-level error variables initialised once are modelled as distinct non-nil constants.
func (e *Engine) errConst(g *ssa.Global) string {
	if c, ok := e.errConsts[g]; ok {
		return c
	}
	c := ""
	pt, ok := g.Type().(*types.Pointer)
	if ok && types.Identical(pt.Elem(), types.Universe.Lookup("error").Type()) && e.storedOnlyInInit(g) {
		id := 9000000 + len(e.errConsts)
		c = fmt.Sprintf("(ibox %d %d null str_empty)", e.typeTag(types.Universe.Lookup("error").Type())+100000, id)
	}
	e.errConsts[g] = c
	return c
}

func (e *Engine) storedOnlyInInit(g *ssa.Global) bool {
	pkg := g.Pkg
	if pkg == nil {
		return false
	}
	ok := true
	var scan func(f *ssa.Function)
	scan = func(f *ssa.Function) {
		if f == nil || f.Blocks == nil {
			return
		}
		isInit := f.Name() == "init" || strings.HasPrefix(f.Name(), "init#")
		for _, b := range f.Blocks {
			for _, in := range b.Instrs {
				if s, isS := in.(*ssa.Store); isS && s.Addr == g && !isInit {
					ok = false
				}
				// address taken for anything but load/store
				if _, isS := in.(*ssa.Store); !isS {
					if _, isU := in.(*ssa.UnOp); !isU {
						for _, op := range in.Operands(nil) {
							if op != nil && *op == g {
								if _, isD := in.(*ssa.DebugRef); !isD {
									ok = false
								}
							}
						}
					}
				}
			}
		}
		for _, a := range f.AnonFuncs {
			scan(a)
		}
	}
	for _, f := range e.funcIndex {
		if f.Pkg == pkg {
			scan(f)
		}
	}
	return ok
}
