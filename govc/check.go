package main

import (
	"encoding/json"
	"flag"
	"fmt"
	"os"
	"os/exec"
	"path/filepath"
	"regexp"
	"sort"
	"strconv"
	"strings"
	"time"
)

type KnownFinding struct {
	Property   string `json:"property"`
	Obligation string `json:"obligation"` // obligation name without the @file:line suffix; may be a regexp when it starts with "re:"
	What       string `json:"what"`
	Witness    string `json:"witness,omitempty"`
}

type FixedEntry struct {
	Property string `json:"property"`
	Commit   string `json:"commit"`
	What     string `json:"what"`
}

type KnownFindings struct {
	Findings []KnownFinding `json:"findings"`
	Fixed    []FixedEntry   `json:"fixed"`
}

type ReplaySpec struct {
	Match    string `json:"match"`    // regexp on obligation name
	PkgDir   string `json:"pkg_dir"`  // relative to repo root
	Files    []string `json:"files"`  // template files (relative to /verif/replay/<id>/) to overlay into PkgDir
	Run      string `json:"run"`      // -run pattern
	Module   string `json:"module"`   // module dir relative to repo root ("." default)
	Race     bool   `json:"race"`     // run the replay under the race detector
}

var lineSuffix = regexp.MustCompile(`@[A-Za-z0-9_./-]+:[0-9]+`)

func normObl(name string) string { return lineSuffix.ReplaceAllString(name, "") }

func matchFinding(kf *KnownFindings, prop, obl string) *KnownFinding {
	n := normObl(obl)
	for i := range kf.Findings {
		f := &kf.Findings[i]
		if f.Property != prop {
			continue
		}
		if strings.HasPrefix(f.Obligation, "re:") {
			if ok, _ := regexp.MatchString(f.Obligation[3:], n); ok {
				return f
			}
		} else if normObl(f.Obligation) == n {
			return f
		}
	}
	return nil
}

func verifDir() string {
	if d := os.Getenv("VERIF_DIR"); d != "" {
		return d
	}
	return "/verif"
}

// replay runs the property's replay template (if one matches) on the real code through go test -overlay.
func replay(repo, prop string, o *OblResult, jsonPath string) (ran bool, reproduced bool, output string) {
	dir := filepath.Join(verifDir(), "replay", prop)
	b, err := os.ReadFile(filepath.Join(dir, "harness.json"))
	if err != nil {
		return false, false, ""
	}
	var specs []ReplaySpec
	if err := json.Unmarshal(b, &specs); err != nil {
		return false, false, "bad harness.json: " + err.Error()
	}
	for _, s := range specs {
		ok, _ := regexp.MatchString(s.Match, o.Name)
		if !ok {
			continue
		}
		wdir, env, err := privateWorkspace(repo)
		if err != nil {
			return false, false, err.Error()
		}
		defer os.RemoveAll(wdir)
		ov := map[string]map[string]string{"Replace": {}}
		for i, f := range s.Files {
			src := filepath.Join(dir, f)
			dst := filepath.Join(repo, s.PkgDir, fmt.Sprintf("zz_verif_replay_%d_test.go", i))
			ov["Replace"][dst] = src
		}
		ob, _ := json.Marshal(ov)
		ovPath := filepath.Join(wdir, "overlay.json")
		os.WriteFile(ovPath, ob, 0o644)
		mod := s.Module
		if mod == "" {
			mod = "."
		}
		rel, _ := filepath.Rel(filepath.Join(repo, mod), filepath.Join(repo, s.PkgDir))
		targs := []string{"test", "-overlay", ovPath, "-vet=off", "-count=1", "-timeout", "120s", "-run", s.Run}
		if s.Race {
			targs = append(targs, "-race")
		}
		targs = append(targs, "./"+rel)
		cmd := exec.Command("go", targs...)
		cmd.Dir = filepath.Join(repo, mod)
		cmd.Env = append(env, "GOVC_REPLAY="+jsonPath, "GOFLAGS=")
		out, _ := cmd.CombinedOutput()
		txt := string(out)
		if len(txt) > 6000 {
			txt = txt[:6000]
		}
		repro := strings.Contains(txt, "REPRODUCED:") && !strings.Contains(txt, "NOT-REPRODUCED")
		if s.Race && strings.Contains(txt, "WARNING: DATA RACE") {
			repro = true
		}
		return true, repro, txt
	}
	return false, false, ""
}

func cmdCheck(args []string) {
	fs := flag.NewFlagSet("check", flag.ExitOnError)
	repo := fs.String("repo", "/repo", "repository root")
	tier := fs.String("tier", "quick", "quick|thorough")
	speclib := fs.String("speclib", filepath.Join(verifDir(), "speclib"), "spec library")
	noEvidence := fs.Bool("no-evidence", false, "do not write the evidence file (selftest runs)")
	fs.Parse(args)
	if fs.NArg() < 1 {
		fmt.Fprintln(os.Stderr, "usage: govc check [flags] <property-id>")
		os.Exit(2)
	}
	prop := fs.Arg(0)
	if t := os.Getenv("VERIF_TIER"); t == "quick" || t == "thorough" {
		*tier = t
	}
	seed := int64(0)
	if s := os.Getenv("VERIF_SEED"); s != "" {
		seed, _ = strconv.ParseInt(s, 10, 64)
	}
	if r := os.Getenv("VERIF_REPO"); r != "" {
		*repo = r
	}
	t0 := time.Now()
	code := runCheck(*repo, prop, *tier, *speclib, seed, !*noEvidence, t0)
	os.Exit(code)
}

func runCheck(repo, prop, tier, speclib string, seed int64, writeEvidence bool, t0 time.Time) int {
	var kf KnownFindings
	if b, err := os.ReadFile(filepath.Join(verifDir(), "known_findings.json")); err == nil {
		json.Unmarshal(b, &kf)
	}
	outDir := filepath.Join(verifDir(), "replay", "out", prop)
	os.RemoveAll(outDir)
	os.MkdirAll(outDir, 0o755)
	rep, err := runVerify(repo, prop, tier, nil, speclib)
	violations := 0
	var lines []string
	if err != nil {
		// the machinery could not run: report as a violation with the reason (nothing was proved)
		p := filepath.Join(outDir, "engine-error.json")
		b, _ := json.MarshalIndent(map[string]string{"property": prop, "obligation": "engine.load", "error": err.Error()}, "", " ")
		os.WriteFile(p, b, 0o644)
		fmt.Printf("VIOLATION property=%s replay=%s engine error: %s no-failing-input-found\n", prop, p, oneLine(err.Error()))
		return 1
	}
	// BV lemma proofs (bit-operation axioms used over Int are proved at width 8 on every run)
	bvOK, bvOut := proveBVLemmas()
	if !bvOK {
		p := filepath.Join(outDir, "bv-lemmas.json")
		b, _ := json.MarshalIndent(map[string]string{"property": prop, "obligation": "bv.lemmas", "output": bvOut}, "", " ")
		os.WriteFile(p, b, 0o644)
		fmt.Printf("VIOLATION property=%s replay=%s bv lemma not proved no-failing-input-found\n", prop, p)
		violations++
	}
	claimed, discharged, bounded, boundedOK, trivial := 0, 0, 0, 0, 0
	var known []string
	var samples []map[string]interface{}
	solverSecs := map[string]float64{}
	for _, f := range rep.Funcs {
		for k, v := range f.SolverSecs {
			solverSecs[k] += v
		}
	}
	for _, e := range rep.Errors {
		p := filepath.Join(outDir, "engine-error.json")
		b, _ := json.MarshalIndent(map[string]string{"property": prop, "obligation": "engine", "error": e}, "", " ")
		os.WriteFile(p, b, 0o644)
		fmt.Printf("VIOLATION property=%s replay=%s %s no-failing-input-found\n", prop, p, oneLine(e))
		violations++
	}
	for _, o := range rep.Obls {
		good := o.Status == "discharged" || o.Status == "trivial"
		// a recorded finding of ANOTHER property on a clause that is tagged for that property only (the function is
		// verified in this run because other clauses of it serve this property): not this property's business
		if !good {
			foreign := false
			for i := range kf.Findings {
				f := &kf.Findings[i]
				if f.Property != prop && matchFinding(&kf, f.Property, o.Name) == f && hasTag(o.Tags, f.Property) && !hasTag(o.Tags, prop) {
					foreign = true
				}
			}
			if foreign {
				continue
			}
		}
		if f := matchFinding(&kf, prop, o.Name); f != nil {
			if good {
				known = append(known, fmt.Sprintf("STALE (obligation now discharges): %s", f.Obligation))
			} else {
				lines = append(lines, fmt.Sprintf("KNOWN-FINDING: property=%s %s [%s]", prop, f.What, normObl(o.Name)))
				known = append(known, normObl(o.Name)+": "+f.What)
			}
			continue
		}
		if o.Bounded > 0 {
			bounded++
			if good {
				boundedOK++
			}
		} else {
			claimed++
			if good {
				discharged++
			}
		}
		if o.Status == "trivial" {
			trivial++
		}
		if len(samples) < 12 && o.Kind != "vacuity" {
			samples = append(samples, map[string]interface{}{"obligation": o.Name, "clause": o.Clause, "status": o.Status, "backend": o.Solver, "answer": o.Answer, "secs": round3(o.Secs), "paths": o.Paths, "second_backend": o.Second})
		}
		if good {
			continue
		}
		// violation: write replay file, try the replay harness
		jp := filepath.Join(outDir, sanitize(o.Name)+".json")
		qp := ""
		if o.Query != "" {
			qp = filepath.Join(outDir, sanitize(o.Name)+".smt2")
			os.WriteFile(qp, []byte(o.Query), 0o644)
		}
		rj := map[string]interface{}{"property": prop, "obligation": o.Name, "kind": o.Kind, "function": o.Func, "clause": o.Clause, "contract_pos": o.Pos,
			"status": o.Status, "solver": o.Solver, "solver_answer": o.Answer, "model": parseModel(o.Model), "model_text": o.Model, "query_file": qp}
		b, _ := json.MarshalIndent(rj, "", " ")
		os.WriteFile(jp, b, 0o644)
		ran, reproduced, out := replay(repo, prop, o, jp)
		rj["replay_ran"] = ran
		rj["replay_reproduced"] = reproduced
		rj["replay_output"] = out
		b, _ = json.MarshalIndent(rj, "", " ")
		os.WriteFile(jp, b, 0o644)
		suffix := ""
		if !reproduced {
			suffix = " no-failing-input-found"
		}
		lines = append(lines, fmt.Sprintf("VIOLATION property=%s replay=%s obligation=%s status=%s%s", prop, jp, o.Name, o.Status, suffix))
		violations++
	}
	// vacuity: obligation count must not shrink below what was recorded when the contracts were committed
	if exp := expectedObligations(prop); exp > 0 && claimed+bounded < exp {
		jp := filepath.Join(outDir, "vacuity.count.json")
		b, _ := json.MarshalIndent(map[string]interface{}{"property": prop, "obligation": "vacuity.count", "expected_at_least": exp, "generated": claimed + bounded}, "", " ")
		os.WriteFile(jp, b, 0o644)
		lines = append(lines, fmt.Sprintf("VIOLATION property=%s replay=%s obligation=vacuity.count generated=%d expected>=%d no-failing-input-found", prop, jp, claimed+bounded, exp))
		violations++
	}
	if claimed == 0 {
		jp := filepath.Join(outDir, "vacuity.none.json")
		os.WriteFile(jp, []byte(`{"obligation":"vacuity.none","reason":"no obligations were generated"}`), 0o644)
		lines = append(lines, fmt.Sprintf("VIOLATION property=%s replay=%s obligation=vacuity.none no-failing-input-found", prop, jp))
		violations++
	}
	for _, l := range lines {
		fmt.Println(l)
	}
	// thorough tier: must-fail selftest of this check on the stored seeded changes (vacuity guard for the machinery)
	var selftest []map[string]interface{}
	if tier == "thorough" && os.Getenv("VERIF_NO_SELFTEST") == "" && violations == 0 {
		selftest = runSelftest(repo, prop, speclib, &kf)
		for _, r := range selftest {
			if r["outcome"] == "MISSED" {
				fmt.Printf("SELFTEST-WARNING property=%s seeded change %v, recorded as detected, is no longer reported by this check (machinery regression, not a property violation)\n", prop, r["seed"])
			}
		}
	}
	// evidence
	if writeEvidence {
		var fns []map[string]interface{}
		assume := map[string]bool{}
		unsupp := []string{}
		boundedLoops := map[string]int{}
		verifiedHere := map[string]bool{}
		for _, f := range rep.Funcs {
			verifiedHere[f.Key] = true
		}
		for _, f := range rep.Funcs {
			fns = append(fns, map[string]interface{}{"function": f.Key, "contract": f.File, "ssa_instrs": f.Instrs, "paths": f.Paths, "feasible_return_paths": f.ReturnPaths,
				"obligations": len(f.Obligations), "inlined_callees": f.Inlined, "lemma": f.IsLemma})
			for _, s := range f.Specs {
				k := strings.TrimSuffix(s, " (contract verified against its body)")
				if verifiedHere[k] {
					continue // relied upon AND verified against its body in this run: not an assumption
				}
				assume["assumed contract (unchecked: dependency, interface method or trusted): "+k] = true
			}
			for _, s := range f.Havocked {
				assume["callee without contract: "+s] = true
			}
			for _, s := range f.Abstracted {
				assume["abstracted: "+s] = true
			}
			unsupp = append(unsupp, f.Unsupported...)
			for k, v := range f.Bounded {
				boundedLoops[k] = v
			}
		}
		assume["64-bit integer arithmetic treated as mathematical (no overflow), except unsigned 64-bit subtraction, which wraps exactly; arithmetic of width <= 32 and all narrowing conversions are wrapped exactly"] = true
		assume["sequential semantics per function: no interference from other goroutines except through contracts"] = true
		assume["Go type checker, x/tools go/ssa v0.29.0 lowering, govc itself, z3/cvc5 soundness for unsat"] = true
		assume["frames: every store, map update and call (with or without contract) is checked against the function's assigns clause and against the modifies clause of every enclosing cut loop; exception: an in-place append into spare capacity is checked against the function's clause only"] = true
		assume["termination is not verified (loops are cut by invariants; recursion through contracts)"] = true
		assume["ghost state keyed by *math/big.Int (bigval) travels with value copies of big.Int; a shallow copy shares the digit array with the original - in-place mutation of one copy afterwards is outside the model"] = true
		assume["frame designator under(p): the memory at and up to three selector steps below p (encoding/binary.Read is assumed to write only that)"] = true
		assume["preconditions tagged @SAFETY are obligations only of callers under `checks safety` (other callers neither prove nor rely on the clauses stated under them)"] = true
		assume[fmt.Sprintf("%d speclib axioms", rep.Axioms)] = true
		var as []string
		for k := range assume {
			as = append(as, k)
		}
		sort.Strings(as)
		ev := map[string]interface{}{
			"property_id": prop, "tier": tier, "seed": seed, "level": "proof",
			"coverage": map[string]interface{}{
				"obligations": claimed, "discharged": discharged, "trivially_true": trivial,
				"bounded_obligations": bounded, "bounded_discharged": boundedOK, "bounded_loops": boundedLoops,
				"checker_cmd":  fmt.Sprintf("/verif/bin/govc check -tier %s %s (govc: go/ssa symbolic execution -> SMT-LIB; z3-new 5.1.0 primary, z3 4.8.12 + cvc5 1.0 portfolio on failures%s)", tier, prop, map[bool]string{true: ", every obligation re-discharged on a second back end", false: ""}[tier == "thorough"]),
				"trusted_base": as, "samples": samples, "functions_under_contract": fns, "solver_time_s": solverSecs,
				"known_findings": known, "unsupported": unsupp, "selftest_on_seeded_changes": selftest,
				"explanation": "each obligation is a verification condition generated from the SSA of the real function in /repo (current working tree, build tag verif) against its //@ contract; discharged = unsat on every path",
			},
			"assumptions": as, "wall_s": round3(time.Since(t0).Seconds()), "violations": violations,
		}
		os.MkdirAll(filepath.Join(verifDir(), "evidence"), 0o755)
		b, _ := json.MarshalIndent(ev, "", " ")
		os.WriteFile(filepath.Join(verifDir(), "evidence", prop+".json"), b, 0o644)
	}
	fmt.Printf("govc: property %s tier %s: %d obligations, %d discharged, %d bounded (%d ok), %d known findings, %d violations, %.1fs\n", prop, tier, claimed, discharged, bounded, boundedOK, len(known), violations, time.Since(t0).Seconds())
	if violations > 0 {
		return 1
	}
	return 0
}

func round3(f float64) float64 { return float64(int(f*1000)) / 1000 }

func oneLine(s string) string {
	s = strings.ReplaceAll(s, "\n", " ")
	if len(s) > 300 {
		s = s[:300]
	}
	return s
}

func expectedObligations(prop string) int {
	b, err := os.ReadFile(filepath.Join(verifDir(), "expected_obligations.json"))
	if err != nil {
		return 0
	}
	m := map[string]int{}
	json.Unmarshal(b, &m)
	return m[prop]
}

// parseModel turns "name = ((sym value))" lines into a map name -> value text.
func parseModel(text string) map[string]string {
	m := map[string]string{}
	for _, l := range strings.Split(text, "\n") {
		i := strings.Index(l, " = ")
		if i < 0 {
			continue
		}
		name := strings.TrimPrefix(strings.TrimSpace(l[:i]), "@")
		v := strings.TrimSpace(l[i+3:])
		// ((term value)) -> value
		v = strings.TrimPrefix(v, "((")
		v = strings.TrimSuffix(v, "))")
		// drop the term: first token or balanced paren group
		if strings.HasPrefix(v, "(") {
			d := 0
			for j := 0; j < len(v); j++ {
				if v[j] == '(' {
					d++
				}
				if v[j] == ')' {
					d--
					if d == 0 {
						v = strings.TrimSpace(v[j+1:])
						break
					}
				}
			}
		} else if j := strings.Index(v, " "); j >= 0 {
			v = strings.TrimSpace(v[j+1:])
		}
		v = strings.ReplaceAll(v, "(- ", "-")
		if strings.HasPrefix(v, "-") {
			v = strings.TrimSuffix(v, ")")
		}
		m[name] = v
	}
	return m
}


// runSelftest applies every stored seeded change of the property that is recorded as detected to a scratch copy of
// the current working tree (outside /repo and /verif, removed afterwards) and runs the quick verification on the copy:
// the change must make at least one obligation fail. A patch that no longer applies is skipped.
func runSelftest(repo, prop, speclib string, kf *KnownFindings) []map[string]interface{} {
	var out []map[string]interface{}
	dirs, _ := filepath.Glob(filepath.Join(verifDir(), "seeded", prop+"-*"))
	sort.Strings(dirs)
	for _, d := range dirs {
		mb, err := os.ReadFile(filepath.Join(d, "meta.json"))
		if err != nil {
			continue
		}
		var meta struct {
			CheckResult struct {
				Detected string `json:"detected"`
				Note     string `json:"note"`
			} `json:"check_result"`
		}
		if json.Unmarshal(mb, &meta) != nil || meta.CheckResult.Detected != "yes" {
			continue
		}
		res := map[string]interface{}{"seed": filepath.Base(d), "expected": meta.CheckResult.Note}
		scratch, err := os.MkdirTemp("", "govc-selftest-")
		if err != nil {
			continue
		}
		func() {
			defer os.RemoveAll(scratch)
			cp := exec.Command("rsync", "-a", "--exclude", ".git", repo+"/", scratch+"/")
			if o, err := cp.CombinedOutput(); err != nil {
				res["outcome"] = "skipped (copy failed: " + oneLine(string(o)) + ")"
				return
			}
			ap := exec.Command("git", "apply", "--whitespace=nowarn", filepath.Join(d, "patch.diff"))
			ap.Dir = scratch
			if o, err := ap.CombinedOutput(); err != nil {
				res["outcome"] = "skipped (patch does not apply to the current tree: " + oneLine(string(o)) + ")"
				return
			}
			rep, err := runVerify(scratch, prop, "quick", nil, speclib)
			if err != nil {
				res["outcome"] = "skipped (" + err.Error() + ")"
				return
			}
			var failing []string
			for _, o := range rep.Obls {
				if o.Status == "discharged" || o.Status == "trivial" {
					continue
				}
				if matchFinding(kf, prop, o.Name) != nil {
					continue
				}
				// a recorded finding of another property is not evidence that this change was caught
				foreign := false
				for i := range kf.Findings {
					f := &kf.Findings[i]
					if f.Property != prop && matchFinding(kf, f.Property, o.Name) == f {
						foreign = true
					}
				}
				if foreign {
					continue
				}
				failing = append(failing, normObl(o.Name))
			}
			if len(rep.Errors) > 0 {
				failing = append(failing, "engine: "+oneLine(rep.Errors[0]))
			}
			if len(failing) > 0 {
				if len(failing) > 4 {
					failing = failing[:4]
				}
				res["outcome"] = "DETECTED"
				res["failing_obligations"] = failing
			} else {
				res["outcome"] = "MISSED"
			}
		}()
		out = append(out, res)
	}
	return out
}
