package main

import (
	"fmt"
	"os"
	"sort"
	"strings"

	"golang.org/x/tools/go/ssa"
)

// ---------- immediate post-dominators ----------

type pdomInfo struct {
	ipdom map[*ssa.BasicBlock]*ssa.BasicBlock
}

func (e *Engine) ipdom(fn *ssa.Function, b *ssa.BasicBlock) *ssa.BasicBlock {
	if e.pdomCache == nil {
		e.pdomCache = map[*ssa.Function]*pdomInfo{}
	}
	pi, ok := e.pdomCache[fn]
	if !ok {
		pi = computePdom(fn)
		e.pdomCache[fn] = pi
	}
	return pi.ipdom[b]
}

func computePdom(fn *ssa.Function) *pdomInfo {
	n := len(fn.Blocks)
	// node n = virtual exit
	words := (n + 1 + 63) / 64
	full := make([]uint64, words)
	for i := 0; i <= n; i++ {
		full[i/64] |= 1 << uint(i%64)
	}
	pd := make([][]uint64, n+1)
	for i := 0; i <= n; i++ {
		pd[i] = append([]uint64(nil), full...)
	}
	ex := make([]uint64, words)
	ex[n/64] |= 1 << uint(n%64)
	pd[n] = ex
	succs := func(i int) []int {
		b := fn.Blocks[i]
		if len(b.Succs) == 0 {
			return []int{n}
		}
		var out []int
		for _, s := range b.Succs {
			out = append(out, s.Index)
		}
		return out
	}
	changed := true
	for changed {
		changed = false
		for i := n - 1; i >= 0; i-- {
			nw := append([]uint64(nil), full...)
			for _, s := range succs(i) {
				for w := range nw {
					nw[w] &= pd[s][w]
				}
			}
			nw[i/64] |= 1 << uint(i%64)
			same := true
			for w := range nw {
				if nw[w] != pd[i][w] {
					same = false
				}
			}
			if !same {
				pd[i] = nw
				changed = true
			}
		}
	}
	has := func(set []uint64, i int) bool { return set[i/64]&(1<<uint(i%64)) != 0 }
	count := func(set []uint64) int {
		c := 0
		for i := 0; i <= n; i++ {
			if has(set, i) {
				c++
			}
		}
		return c
	}
	pi := &pdomInfo{ipdom: map[*ssa.BasicBlock]*ssa.BasicBlock{}}
	for i := 0; i < n; i++ {
		if !has(pd[i], n) {
			continue // cannot reach the exit
		}
		// immediate post-dominator: the strict post-dominator with the largest post-dominator set
		best, bestC := -1, -1
		for j := 0; j <= n; j++ {
			if j == i || !has(pd[i], j) {
				continue
			}
			if c := count(pd[j]); c > bestC {
				best, bestC = j, c
			}
		}
		if best >= 0 && best < n {
			pi.ipdom[fn.Blocks[i]] = fn.Blocks[best]
		}
	}
	return pi
}

// ---------- merging the states that arrive at a join block ----------

func deferKey(d deferRec) string {
	var sb strings.Builder
	sb.WriteString(d.pos)
	sb.WriteString("|")
	sb.WriteString(d.guard)
	sb.WriteString("|")
	sb.WriteString(d.fn.String())
	for _, a := range d.args {
		sb.WriteString("|")
		sb.WriteString(a.String())
	}
	return sb.String()
}

func valSame(a, b Val) bool {
	if a.K != b.K || a.Root != b.Root || a.Fn != b.Fn {
		return false
	}
	return a.String() == b.String() && len(a.Bind) == len(b.Bind)
}

func mergeable(a Val) bool {
	switch a.K {
	case KFunc:
		return a.Fn == nil
	case KStruct, KTuple, KArr:
		for _, f := range a.F {
			if !mergeable(f) {
				return false
			}
		}
	case KLazy:
		return false
	}
	return true
}

func sameShape(a, b Val) bool {
	if a.K != b.K {
		return false
	}
	switch a.K {
	case KStruct, KTuple, KArr:
		if len(a.F) != len(b.F) {
			return false
		}
		for i := range a.F {
			if !sameShape(a.F[i], b.F[i]) {
				return false
			}
		}
	}
	return true
}

func (e *Engine) mergeStates(fork *node, forkKnown *knownSet, arr []*State) *State {
	if len(arr) == 1 {
		return arr[0]
	}
	base := arr[0]
	for _, a := range arr[1:] {
		if len(a.frames) != len(base.frames) || a.summary != base.summary {
			return nil
		}
		for i := range a.frames {
			fa, fb := a.frames[i], base.frames[i]
			if fa.fn != fb.fn || fa.block != fb.block || fa.idx != fb.idx || fa.retTo != fb.retTo || fa.bounded != fb.bounded {
				if os.Getenv("GOVC_TRACE") != "" {
					fmt.Fprintf(os.Stderr, "govc: no merge at %s block %d: frames differ\n", fb.fn.Name(), fb.block.Index)
				}
				return nil
			}
		}
	}
	// every arrival must descend from the fork
	for _, a := range arr {
		ok := fork == nil
		for n := a.tail; n != nil; n = n.prev {
			if n == fork {
				ok = true
				break
			}
		}
		if !ok {
			return nil
		}
	}
	m := base.clone()
	m.tail = fork
	m.known = forkKnown
	emitted := map[*node]bool{}
	var pcs []string
	var armFacts [][]string
	for _, a := range arr {
		var nodes []*node
		for n := a.tail; n != nil && n != fork; n = n.prev {
			nodes = append(nodes, n)
		}
		hasCheck := false
		var conj, facts []string
		for i := len(nodes) - 1; i >= 0; i-- {
			n := nodes[i]
			if n.check != nil {
				hasCheck = true
				if !n.check.Cover && n.check.Kind != "post" && n.check.Kind != "callsonly" {
					facts = append(facts, n.check.Goal)
				}
				continue
			}
			if strings.HasPrefix(n.text, "(assert ") {
				if n.branch {
					conj = append(conj, n.text[8:len(n.text)-1])
				} else {
					facts = append(facts, n.text[8:len(n.text)-1])
				}
				continue
			}
			if !emitted[n] {
				emitted[n] = true
				m.emit(n.text)
			}
		}
		armFacts = append(armFacts, facts)
		if hasCheck {
			// the obligations raised inside this arm are discharged in the arm's own script
			e.pathCount++
			e.paths = append(e.paths, &pathResult{tail: a.tail, end: "merge", fn: e.curFunc})
		}
		pcs = append(pcs, m.define("pc", "Bool", sAnd(conj...)))
	}
	m.assume(sOr(pcs...))
	// facts established inside an arm (frames of havocs, allocation facts, assumed postconditions, ...) hold under that
	// arm's path condition
	for i, fs := range armFacts {
		for _, f := range fs {
			m.emit("(assert " + sImp(pcs[i], f) + ")")
		}
	}
	pick := func(vals []Val) (Val, bool) {
		r := vals[len(vals)-1]
		for k := len(vals) - 2; k >= 0; k-- {
			a := vals[k]
			if !sameShape(a, r) || !mergeable(a) || !mergeable(r) {
				return Val{}, false
			}
			nr := valIte(pcs[k], a, r)
			if a.Root == r.Root {
				nr.Root = r.Root
			}
			nr.NonNil = a.NonNil && r.NonNil
			nr.Ty = r.Ty
			r = nr
		}
		return e.nameVal(m, r, "mg"), true
	}
	// deferred calls: common prefix stays; what an arm added is kept under that arm's path condition
	for fi, f := range m.frames {
		common := len(f.defers)
		for _, a := range arr {
			ad := a.frames[fi].defers
			k := 0
			for k < common && k < len(ad) && deferKey(ad[k]) == deferKey(f.defers[k]) {
				k++
			}
			common = k
		}
		allSame := true
		for _, a := range arr {
			if len(a.frames[fi].defers) != common {
				allSame = false
			}
		}
		if !allSame {
			nd := append([]deferRec(nil), f.defers[:common]...)
			for i, a := range arr {
				for _, d := range a.frames[fi].defers[common:] {
					g := pcs[i]
					if d.guard != "" {
						g = sAnd(d.guard, pcs[i])
					}
					d.guard = g
					nd = append(nd, d)
				}
			}
			f.defers = nd
		}
	}
	for fi, f := range m.frames {
		keys := map[ssa.Value]bool{}
		for _, a := range arr {
			for k := range a.frames[fi].regs {
				keys[k] = true
			}
		}
		for k := range keys {
			var vals []Val
			all, same := true, true
			for _, a := range arr {
				v, ok := a.frames[fi].regs[k]
				if !ok {
					all = false
					break
				}
				if len(vals) > 0 && !valSame(vals[0], v) {
					same = false
				}
				vals = append(vals, v)
			}
			if !all {
				delete(f.regs, k)
				continue
			}
			if same {
				f.regs[k] = vals[0]
				continue
			}
			if v, ok := pick(vals); ok {
				f.regs[k] = v
			} else {
				delete(f.regs, k)
			}
		}
		nkeys := map[string]bool{}
		for _, a := range arr {
			for k := range a.frames[fi].names {
				nkeys[k] = true
			}
		}
		for k := range nkeys {
			var vals []Val
			all, same := true, true
			addr := false
			for i, a := range arr {
				v, ok := a.frames[fi].names[k]
				if !ok {
					all = false
					break
				}
				if i == 0 {
					addr = a.frames[fi].nameAddr[k]
				} else if a.frames[fi].nameAddr[k] != addr {
					all = false
					break
				}
				if len(vals) > 0 && !valSame(vals[0], v) {
					same = false
				}
				vals = append(vals, v)
			}
			if !all {
				// a snap variable recorded on some arms only: keep it, together with the condition under which it
				// is defined (so that defined(x) survives the merge)
				var have []Val
				var conds []string
				isSnap := true
				for i, a := range arr {
					if v, ok := a.frames[fi].names[k]; ok {
						if a.frames[fi].nameAddr[k] || !a.frames[fi].snaps[k] {
							isSnap = false
						}
						c := pcs[i]
						if d, has := a.frames[fi].nameDef[k]; has {
							c = sAnd(c, d)
						}
						have = append(have, v)
						conds = append(conds, c)
					}
				}
				if os.Getenv("GOVC_DEBUGM") != "" {
					fmt.Fprintf(os.Stderr, "merge name %s isSnap=%v have=%d\n", k, isSnap, len(have))
				}
				if !isSnap || len(have) == 0 {
					delete(f.names, k)
					delete(f.nameAddr, k)
					continue
				}
				r := have[len(have)-1]
				okm := true
				for i := len(have) - 2; i >= 0; i-- {
					if !sameShape(have[i], r) || !mergeable(have[i]) {
						okm = false
						break
					}
					r = valIte(conds[i], have[i], r)
				}
				if !okm {
					delete(f.names, k)
					continue
				}
				f.names[k] = e.nameVal(m, r, "snap")
				if f.nameDef == nil {
					f.nameDef = map[string]string{}
				}
				if f.snaps == nil {
					f.snaps = map[string]bool{}
				}
				f.snaps[k] = true
				f.nameDef[k] = m.define("sdef", "Bool", sOr(conds...))
				continue
			}
			if same {
				f.names[k] = vals[0]
				continue
			}
			if v, ok := pick(vals); ok {
				f.names[k] = v
			} else {
				delete(f.names, k)
				delete(f.nameAddr, k)
			}
		}
		for _, a := range arr {
			for b, v := range a.frames[fi].cut {
				if v {
					f.cut[b] = true
				}
			}
			for b, v := range a.frames[fi].unrolled {
				if v > f.unrolled[b] {
					f.unrolled[b] = v
				}
			}
		}
	}
	// heaps
	hn := map[string]bool{}
	for _, a := range arr {
		for k := range a.heaps {
			hn[k] = true
		}
	}
	var hs []string
	for k := range hn {
		hs = append(hs, k)
	}
	sort.Strings(hs)
	for _, k := range hs {
		var terms []string
		same := true
		for _, a := range arr {
			t := a.heap(k)
			if len(terms) > 0 && terms[0] != t {
				same = false
			}
			terms = append(terms, t)
		}
		if same {
			m.heaps[k] = terms[0]
			continue
		}
		r := terms[len(terms)-1]
		for i := len(terms) - 2; i >= 0; i-- {
			r = sIte(pcs[i], terms[i], r)
		}
		m.heaps[k] = m.define(k, e.heapSortOf(k), r)
	}
	// closure cells: keep only those equal on every arm
	for k, v := range m.cellFn {
		for _, a := range arr {
			if av, ok := a.cellFn[k]; !ok || av.Fn != v.Fn {
				delete(m.cellFn, k)
				break
			}
		}
	}
	// private objects: only those private on every arm
	for r := range m.private {
		for _, a := range arr {
			if !a.private[r] {
				delete(m.private, r)
				break
			}
		}
	}
	// allocation watermark
	sameWm := true
	for _, a := range arr {
		if a.wmBase != base.wmBase || a.wmK != base.wmK {
			sameWm = false
		}
	}
	if !sameWm {
		n := m.declare("wm", "Int")
		for _, a := range arr {
			m.assume(sLe(n, a.wm()))
		}
		m.wmBase, m.wmK = n, 0
	}
	// map iterators
	for k, it := range m.iters {
		var terms []string
		same := true
		for _, a := range arr {
			ai := a.iters[k]
			if ai == nil {
				same = true
				terms = nil
				break
			}
			if len(terms) > 0 && terms[0] != ai.visited {
				same = false
			}
			terms = append(terms, ai.visited)
		}
		if !same && len(terms) == len(arr) && it.visited != "" {
			r := terms[len(terms)-1]
			for i := len(terms) - 2; i >= 0; i-- {
				r = sIte(pcs[i], terms[i], r)
			}
			it.visited = m.define("visited", "(Array "+sortOfKind(it.keyKind)+" Bool)", r)
		}
		// the "an iteration has begun" flag merges the same way
		var sts []string
		sameS := true
		for _, a := range arr {
			ai := a.iters[k]
			if ai == nil {
				sts = nil
				break
			}
			s := ai.started
			if s == "" {
				s = "false"
			}
			if len(sts) > 0 && sts[0] != s {
				sameS = false
			}
			sts = append(sts, s)
		}
		if !sameS && len(sts) == len(arr) {
			r := sts[len(sts)-1]
			for i := len(sts) - 2; i >= 0; i-- {
				r = sIte(pcs[i], sts[i], r)
			}
			it.started = m.define("started", "Bool", r)
		}
	}
	for _, a := range arr {
		if a.steps > m.steps {
			m.steps = a.steps
		}
	}
	return m
}
