package main

import (
	"sort"
	"fmt"
	"go/constant"
	"go/token"
	"go/types"
	"strconv"
	"strings"

	"golang.org/x/tools/go/ssa"
)

type cenv struct {
	vars    map[string]Val
	lets    map[string]*CExpr
	old     map[string]string
	pkgPath string
	imports map[string]string
	fr      *Frame
	letBusy map[string]bool
	freshWM string // if set: fresh(x) means "allocated after this watermark" (callee postconditions at a call site)
}

func (env *cenv) child() *cenv {
	n := &cenv{vars: map[string]Val{}, lets: env.lets, old: env.old, pkgPath: env.pkgPath, imports: env.imports, fr: env.fr, freshWM: env.freshWM}
	for k, v := range env.vars {
		n.vars[k] = v
	}
	return n
}

// frameEnv builds the environment for clauses evaluated inside a function body (loop invariants).
func (e *Engine) frameEnv(st *State, fr *Frame) *cenv {
	env := &cenv{vars: map[string]Val{}, lets: map[string]*CExpr{}, fr: fr}
	if fr.contract != nil {
		env.pkgPath = fr.contract.PkgPath
		env.imports = fr.contract.Imports
		// positional parameter names of the contract
		c := fr.contract
		i := 0
		if c.Recv != "" && len(fr.params) > 0 {
			env.vars[c.Recv] = fr.params[0]
			i = 1
		} else if fr.fn.Signature.Recv() != nil {
			i = 1
		}
		for j, p := range c.Params {
			if i+j < len(fr.params) {
				env.vars[p] = fr.params[i+j]
				// inside the body (loop invariants, atcall hooks) a parameter name means the variable's CURRENT
				// value - Go parameters are assignable; <name>0 is the entry value (pre/postconditions always see
				// entry values)
				env.vars[p+"0"] = fr.params[i+j]
				if cur, ok := fr.names[p]; ok && !fr.nameAddr[p] {
					env.vars[p] = cur
				}
			}
		}
		for _, ld := range c.Lets {
			env.lets[ld.Name] = ld.Expr
		}
	}
	env.old = fr.oldHeaps
	return env
}

func (e *Engine) pkgByPath(path string) *types.Package {
	for _, p := range e.prog.AllPackages() {
		if p.Pkg.Path() == path {
			return p.Pkg
		}
	}
	return nil
}

func (e *Engine) resolvePkg(alias, pkgPath string, imports map[string]string) *types.Package {
	if p, ok := imports[alias]; ok {
		return e.pkgByPath(p)
	}
	// the current package's own imports
	if cur := e.pkgByPath(pkgPath); cur != nil {
		for _, imp := range cur.Imports() {
			if imp.Name() == alias {
				return imp
			}
		}
	}
	// standard library by exact path
	if p := e.pkgByPath(alias); p != nil {
		return p
	}
	return nil
}

func (e *Engine) resolveType(text, pkgPath string, imports map[string]string) (types.Type, error) {
	t := strings.TrimSpace(text)
	switch {
	case strings.HasPrefix(t, "*"):
		el, err := e.resolveType(t[1:], pkgPath, imports)
		if err != nil {
			return nil, err
		}
		return types.NewPointer(el), nil
	case strings.HasPrefix(t, "[]"):
		el, err := e.resolveType(t[2:], pkgPath, imports)
		if err != nil {
			return nil, err
		}
		return types.NewSlice(el), nil
	case strings.HasPrefix(t, "["):
		k := strings.Index(t, "]")
		n, err := strconv.Atoi(t[1:k])
		if err != nil {
			return nil, err
		}
		el, err := e.resolveType(t[k+1:], pkgPath, imports)
		if err != nil {
			return nil, err
		}
		return types.NewArray(el, int64(n)), nil
	case strings.HasPrefix(t, "map["):
		depth := 0
		k := -1
		for i := 3; i < len(t); i++ {
			if t[i] == '[' {
				depth++
			}
			if t[i] == ']' {
				depth--
				if depth == 0 {
					k = i
					break
				}
			}
		}
		kt, err := e.resolveType(t[4:k], pkgPath, imports)
		if err != nil {
			return nil, err
		}
		vt, err := e.resolveType(t[k+1:], pkgPath, imports)
		if err != nil {
			return nil, err
		}
		return types.NewMap(kt, vt), nil
	}
	if obj := types.Universe.Lookup(t); obj != nil {
		if tn, ok := obj.(*types.TypeName); ok {
			return tn.Type(), nil
		}
	}
	if i := strings.Index(t, "."); i >= 0 {
		p := e.resolvePkg(t[:i], pkgPath, imports)
		if p == nil {
			return nil, fmt.Errorf("unknown package %q in type %q", t[:i], text)
		}
		obj := p.Scope().Lookup(t[i+1:])
		if tn, ok := obj.(*types.TypeName); ok {
			return tn.Type(), nil
		}
		return nil, fmt.Errorf("unknown type %q", text)
	}
	if p := e.pkgByPath(pkgPath); p != nil {
		if tn, ok := p.Scope().Lookup(t).(*types.TypeName); ok {
			return tn.Type(), nil
		}
	}
	return nil, fmt.Errorf("unknown type %q (package %s)", text, pkgPath)
}

func (e *Engine) evalBool(st *State, env *cenv, x *CExpr) (string, error) {
	v, err := e.evalC(st, env, x)
	if err != nil {
		return "", err
	}
	if v.K != KBool {
		return "", fmt.Errorf("expression %s is not boolean (kind %v)", x.String(), v.K)
	}
	return v.T, nil
}

var nilVal = Val{K: KUnit, T: "nil"}

func isNilVal(v Val) bool { return v.K == KUnit && v.T == "nil" }

func nilOf(k Val) Val {
	switch k.K {
	case KIface:
		return Val{K: KIface, T: "inil"}
	case KSlice:
		return Val{K: KSlice, Base: "null", Off: "0", Len: "0", Cap: "0"}
	case KFunc:
		return Val{K: KFunc, T: "0"}
	}
	return Val{K: KAddr, T: "null"}
}

func (e *Engine) evalC(st *State, env *cenv, x *CExpr) (Val, error) {
	switch x.Op {
	case "int":
		s := strings.ReplaceAll(x.Int, "_", "")
		if strings.HasPrefix(s, "0x") || strings.HasPrefix(s, "0X") {
			n, ok := newBig(0).SetString(s[2:], 16)
			if !ok {
				return Val{}, fmt.Errorf("bad int %q", x.Int)
			}
			return Val{K: KInt, T: n.String(), Ty: types.Typ[types.Int]}, nil
		}
		return Val{K: KInt, T: s, Ty: types.Typ[types.Int]}, nil
	case "str":
		return Val{K: KStr, T: e.strLit(x.Name), Ty: types.Typ[types.String]}, nil
	case "id":
		return e.evalIdent(st, env, x.Name)
	case "field":
		return e.evalField(st, env, x)
	case "index":
		b, err := e.evalC(st, env, x.Args[0])
		if err != nil {
			return Val{}, err
		}
		i, err := e.evalC(st, env, x.Args[1])
		if err != nil {
			return Val{}, err
		}
		return e.indexVal(st, b, i)
	case "slice":
		b, err := e.evalC(st, env, x.Args[0])
		if err != nil {
			return Val{}, err
		}
		lo, hi := "0", ""
		if x.Args[1] != nil {
			v, err := e.evalC(st, env, x.Args[1])
			if err != nil {
				return Val{}, err
			}
			lo = v.T
		}
		if x.Args[2] != nil {
			v, err := e.evalC(st, env, x.Args[2])
			if err != nil {
				return Val{}, err
			}
			hi = v.T
		}
		if b.K == KStr {
			if hi == "" {
				hi = "(slen " + b.T + ")"
			}
			return Val{K: KStr, T: "(substr_ " + b.T + " " + lo + " " + hi + ")", Ty: b.Ty}, nil
		}
		if b.K != KSlice {
			return Val{}, fmt.Errorf("slice expression on kind %v", b.K)
		}
		if hi == "" {
			hi = b.Len
		}
		return Val{K: KSlice, Base: b.Base, Off: sAdd(b.Off, lo), Len: sSub(hi, lo), Cap: sSub(b.Cap, lo), Ty: b.Ty, Root: b.Root}, nil
	case "un":
		return e.evalUnary(st, env, x)
	case "bin":
		return e.evalBinary(st, env, x)
	case "call":
		return e.evalCall(st, env, x)
	case "forall", "exists":
		ne := env.child()
		var binders []string
		var ranges []string
		for _, v := range x.Vars {
			t, err := e.resolveType(v.Type, env.pkgPath, env.imports)
			if err != nil {
				return Val{}, err
			}
			k := kindOf(t)
			if k == KSlice || k == KStruct || k == KArr || k == KTuple {
				return Val{}, fmt.Errorf("quantifier over aggregate type %s", v.Type)
			}
			nm := e.fresh("q_" + v.Name)
			ne.vars[v.Name] = Val{K: k, T: nm, Ty: t}
			binders = append(binders, "("+nm+" "+sortOfKind(k)+")")
			if k == KInt {
				if r := rangeAssume(nm, t); r != "true" {
					if b, ok := t.Underlying().(*types.Basic); ok && b.Kind() != types.Int {
						ranges = append(ranges, r)
					}
				}
			}
		}
		st.quant++
		st.qside = append(st.qside, nil)
		body, err := e.evalBool(st, ne, x.Args[0])
		side := st.qside[len(st.qside)-1]
		st.qside = st.qside[:len(st.qside)-1]
		st.quant--
		if err != nil {
			return Val{}, err
		}
		// type-range facts of values loaded inside the body mention the bound variables. They are invariants of
		// Go memory (a location of type uint8 holds a byte), so they are asserted for all values of the binders,
		// separately from the formula (whose polarity is not known here).
		if len(side) > 0 {
			seenSide := map[string]bool{}
			for _, sd := range side {
				if seenSide[sd] {
					continue
				}
				seenSide[sd] = true
				sf := "(forall (" + strings.Join(binders, " ") + ") " + sd + ")"
				if st.quant > 0 && len(st.qside) > 0 {
					st.qside[len(st.qside)-1] = append(st.qside[len(st.qside)-1], sf)
				} else {
					st.emit("(assert " + sf + ")")
				}
			}
		}
		if x.Op == "forall" {
			body = sImp(sAnd(ranges...), body)
			return Val{K: KBool, T: "(forall (" + strings.Join(binders, " ") + ") " + body + ")"}, nil
		}
		body = sAnd(append(ranges, body)...)
		return Val{K: KBool, T: "(exists (" + strings.Join(binders, " ") + ") " + body + ")"}, nil
	}
	return Val{}, fmt.Errorf("cannot evaluate %s", x.String())
}

func (e *Engine) evalIdent(st *State, env *cenv, name string) (Val, error) {
	switch name {
	case "true":
		return Val{K: KBool, T: "true"}, nil
	case "false":
		return Val{K: KBool, T: "false"}, nil
	case "nil":
		return nilVal, nil
	}
	if v, ok := env.vars[name]; ok {
		return v, nil
	}
	if le, ok := env.lets[name]; ok {
		if env.letBusy == nil {
			env.letBusy = map[string]bool{}
		}
		if env.letBusy[name] {
			return Val{}, fmt.Errorf("recursive let %s", name)
		}
		env.letBusy[name] = true
		v, err := e.evalC(st, env, le)
		delete(env.letBusy, name)
		return v, err
	}
	if env.fr != nil {
		if name == "iter" {
			if v, ok := env.fr.names["rangeindex"]; ok {
				return Val{K: KInt, T: sAdd(v.T, "1"), Ty: types.Typ[types.Int]}, nil
			}
		}
		if v, ok := env.fr.names[name]; ok {
			if env.fr.nameAddr[name] {
				t := derefType(v.Ty)
				if t == nil {
					return Val{}, fmt.Errorf("name %s: address of unknown type", name)
				}
				return st.load(v.T, t, v.Root), nil
			}
			return v, nil
		}
	}
	// zero-argument ghost state
	if g, ok := e.ghosts[name]; ok && g.IsState && len(g.Params) == 0 {
		return e.ghostStateRead(st, env, g, nil)
	}
	// package-level object
	if p := e.pkgByPath(env.pkgPath); p != nil {
		if obj := p.Scope().Lookup(name); obj != nil {
			return e.evalObject(st, obj)
		}
	}
	return Val{}, fmt.Errorf("unknown identifier %q", name)
}

func (e *Engine) evalObject(st *State, obj types.Object) (Val, error) {
	switch o := obj.(type) {
	case *types.Const:
		return e.constToVal(st, o.Val(), o.Type())
	case *types.Var:
		sp := e.prog.Package(o.Pkg())
		if sp == nil {
			return Val{}, fmt.Errorf("no ssa package for %s", o.Pkg().Path())
		}
		g, ok := sp.Members[o.Name()].(*ssa.Global)
		if !ok {
			return Val{}, fmt.Errorf("%s is not a global", o.Name())
		}
		if c := e.errConst(g); c != "" {
			return Val{K: KIface, T: c, Ty: o.Type(), NonNil: true}, nil
		}
		if c, ok := e.globalConst(g); ok {
			return st.constVal(c), nil
		}
		return st.load(e.globalAddr(g), o.Type(), ""), nil
	}
	return Val{}, fmt.Errorf("unsupported object %s", obj.Name())
}

func (e *Engine) constToVal(st *State, cv constant.Value, t types.Type) (Val, error) {
	switch cv.Kind() {
	case constant.Bool:
		if constant.BoolVal(cv) {
			return Val{K: KBool, T: "true", Ty: t}, nil
		}
		return Val{K: KBool, T: "false", Ty: t}, nil
	case constant.Int:
		s := cv.ExactString()
		if strings.HasPrefix(s, "-") {
			s = "(- " + s[1:] + ")"
		}
		if kindOf(t) == KReal {
			return Val{K: KReal, T: "(to_real " + s + ")", Ty: t}, nil
		}
		return Val{K: KInt, T: s, Ty: t}, nil
	case constant.String:
		return Val{K: KStr, T: e.strLit(constant.StringVal(cv)), Ty: t}, nil
	case constant.Float:
		f, _ := constant.Float64Val(cv)
		return Val{K: KReal, T: fmt.Sprintf("%.17f", f), Ty: t}, nil
	}
	return Val{}, fmt.Errorf("unsupported constant kind")
}

func (e *Engine) evalField(st *State, env *cenv, x *CExpr) (Val, error) {
	// qualified identifier pkg.Name ?
	if x.Args[0].Op == "id" {
		alias := x.Args[0].Name
		_, isVar := env.vars[alias]
		_, isLet := env.lets[alias]
		isLocal := false
		if env.fr != nil {
			_, isLocal = env.fr.names[alias]
		}
		if !isVar && !isLet && !isLocal {
			if p := e.resolvePkg(alias, env.pkgPath, env.imports); p != nil {
				if obj := p.Scope().Lookup(x.Name); obj != nil {
					return e.evalObject(st, obj)
				}
				return Val{}, fmt.Errorf("unknown %s.%s", alias, x.Name)
			}
		}
	}
	b, err := e.evalC(st, env, x.Args[0])
	if err != nil {
		return Val{}, err
	}
	return e.fieldOf(st, b, x.Name)
}

func (e *Engine) fieldOf(st *State, b Val, name string) (Val, error) {
	if b.Ty == nil {
		return Val{}, fmt.Errorf("field %s of untyped value", name)
	}
	obj, index, _ := types.LookupFieldOrMethod(b.Ty, true, nil, name)
	if obj == nil {
		// unexported field: need the package
		if n := namedOf(b.Ty); n != nil && n.Obj().Pkg() != nil {
			obj, index, _ = types.LookupFieldOrMethod(b.Ty, true, n.Obj().Pkg(), name)
		}
	}
	fv, ok := obj.(*types.Var)
	if !ok || fv == nil {
		return Val{}, fmt.Errorf("no field %s in %s", name, b.Ty)
	}
	cur := b
	for _, ix := range index {
		switch cur.K {
		case KAddr:
			stt := derefType(cur.Ty)
			if stt == nil || structOf(stt) == nil {
				return Val{}, fmt.Errorf("field %s through non-struct pointer", name)
			}
			ft := structOf(stt).Field(ix).Type()
			addr := "(fld " + cur.T + " " + intLit(int64(ix)) + ")"
			// embedded struct by value: keep as address for further selection
			cur = st.loadLazy(addr, ft, cur.Root)
		case KStruct:
			if ix >= len(cur.F) {
				return Val{}, fmt.Errorf("field index out of range")
			}
			cur = cur.F[ix]
		case KLazy:
			stt := cur.Ty
			ft := structOf(stt).Field(ix).Type()
			addr := "(fld " + cur.T + " " + intLit(int64(ix)) + ")"
			cur = st.loadLazy(addr, ft, cur.Root)
		default:
			return Val{}, fmt.Errorf("field %s of kind %v", name, cur.K)
		}
	}
	return st.force(cur), nil
}

func namedOf(t types.Type) *types.Named {
	if p, ok := t.(*types.Pointer); ok {
		t = p.Elem()
	}
	n, _ := t.(*types.Named)
	return n
}

// KLazy: a struct-typed location not yet loaded (T = address, Ty = struct type).
const KLazy Kind = 100

func (st *State) loadLazy(addr string, t types.Type, root string) Val {
	if kindOf(t) == KStruct {
		return Val{K: KLazy, T: addr, Ty: t, Root: root}
	}
	return st.load(addr, t, root)
}

func (st *State) force(v Val) Val {
	if v.K == KLazy {
		return st.load(v.T, v.Ty, v.Root)
	}
	return v
}

func (e *Engine) indexVal(st *State, b, i Val) (Val, error) {
	switch b.K {
	case KSlice:
		et := types.Type(types.Typ[types.Uint8])
		if b.Ty != nil {
			if sl, ok := b.Ty.Underlying().(*types.Slice); ok {
				et = sl.Elem()
			}
		}
		return st.load(elemAt(b.Base, b.Off, i.T), et, b.Root), nil
	case KArr, KTuple:
		if n, ok := litVal(i.T); ok && n >= 0 && int(n) < len(b.F) {
			return b.F[n], nil
		}
		if len(b.F) == 0 {
			return Val{}, fmt.Errorf("index on empty array value")
		}
		r := b.F[len(b.F)-1]
		for k := len(b.F) - 2; k >= 0; k-- {
			r = valIte(sEq(i.T, intLit(int64(k))), b.F[k], r)
		}
		return r, nil
	case KStr:
		return Val{K: KInt, T: "(sat " + b.T + " " + i.T + ")", Ty: types.Typ[types.Uint8]}, nil
	case KAddr:
		if b.Ty != nil {
			if mt, ok := b.Ty.Underlying().(*types.Map); ok {
				v, _ := e.mapGet(st, b, i, mt)
				return v, nil
			}
			if at := derefType(b.Ty); at != nil {
				if a, ok := at.Underlying().(*types.Array); ok {
					return st.load("(elem "+b.T+" "+i.T+")", a.Elem(), b.Root), nil
				}
			}
		}
	}
	return Val{}, fmt.Errorf("cannot index value of kind %v", b.K)
}

func (e *Engine) evalUnary(st *State, env *cenv, x *CExpr) (Val, error) {
	if x.Name == "&" {
		return e.evalAddr(st, env, x.Args[0])
	}
	v, err := e.evalC(st, env, x.Args[0])
	if err != nil {
		return Val{}, err
	}
	switch x.Name {
	case "!":
		if v.K != KBool {
			return Val{}, fmt.Errorf("! on non-bool")
		}
		return Val{K: KBool, T: sNot(v.T)}, nil
	case "-":
		if v.K == KReal {
			return Val{K: KReal, T: "(- " + v.T + ")", Ty: v.Ty}, nil
		}
		return Val{K: KInt, T: sSub("0", v.T), Ty: v.Ty}, nil
	case "*":
		t := derefType(v.Ty)
		if v.K != KAddr || t == nil {
			return Val{}, fmt.Errorf("* on non-pointer")
		}
		return st.load(v.T, t, v.Root), nil
	}
	return Val{}, fmt.Errorf("unary %s", x.Name)
}

// evalAddr evaluates an lvalue expression to its address.
func (e *Engine) evalAddr(st *State, env *cenv, x *CExpr) (Val, error) {
	switch x.Op {
	case "field":
		b, err := e.evalC(st, env, x.Args[0])
		if err != nil {
			return Val{}, err
		}
		if b.K != KAddr {
			// a struct-typed lvalue (global variable, nested struct field): take its address instead
			if ab, err2 := e.evalAddr(st, env, x.Args[0]); err2 == nil && ab.K == KAddr {
				b = ab
			} else {
				return Val{}, fmt.Errorf("& of field of non-pointer")
			}
		}
		n := namedOf(b.Ty)
		var pkg *types.Package
		if n != nil {
			pkg = n.Obj().Pkg()
		}
		obj, index, _ := types.LookupFieldOrMethod(b.Ty, true, pkg, x.Name)
		fv, ok := obj.(*types.Var)
		if !ok || fv == nil {
			return Val{}, fmt.Errorf("no field %s", x.Name)
		}
		addr := b.T
		cur := derefType(b.Ty)
		for _, ix := range index {
			s := structOf(cur)
			if s == nil {
				return Val{}, fmt.Errorf("& through embedded pointer not supported")
			}
			addr = "(fld " + addr + " " + intLit(int64(ix)) + ")"
			cur = s.Field(ix).Type()
		}
		return Val{K: KAddr, T: addr, Ty: types.NewPointer(cur), Root: b.Root, NonNil: true}, nil
	case "index":
		b, err := e.evalC(st, env, x.Args[0])
		if err != nil {
			return Val{}, err
		}
		i, err := e.evalC(st, env, x.Args[1])
		if err != nil {
			return Val{}, err
		}
		if b.K == KSlice {
			et := b.Ty.Underlying().(*types.Slice).Elem()
			return Val{K: KAddr, T: elemAt(b.Base, b.Off, i.T), Ty: types.NewPointer(et), Root: b.Root, NonNil: true}, nil
		}
	case "id":
		if env.fr != nil && env.fr.nameAddr[x.Name] {
			return env.fr.names[x.Name], nil
		}
		if p := e.pkgByPath(env.pkgPath); p != nil {
			if o, ok := p.Scope().Lookup(x.Name).(*types.Var); ok {
				if sp := e.prog.Package(o.Pkg()); sp != nil {
					if g, ok := sp.Members[o.Name()].(*ssa.Global); ok {
						st.typeFact(e.globalAddr(g), g.Type())
						return Val{K: KAddr, T: e.globalAddr(g), Ty: g.Type(), NonNil: true}, nil
					}
				}
			}
		}
	case "un":
		if x.Name == "*" {
			return e.evalC(st, env, x.Args[0])
		}
	}
	return Val{}, fmt.Errorf("cannot take address of %s", x.String())
}

func (e *Engine) evalBinary(st *State, env *cenv, x *CExpr) (Val, error) {
	op := x.Name
	if op == "in" {
		k, err := e.evalC(st, env, x.Args[0])
		if err != nil {
			return Val{}, err
		}
		m, err := e.evalC(st, env, x.Args[1])
		if err != nil {
			return Val{}, err
		}
		mt, ok := m.Ty.Underlying().(*types.Map)
		if !ok {
			return Val{}, fmt.Errorf("'in' needs a map")
		}
		dh := st.heap(e.mapDomHeap(mt))
		k = e.keyVal(st, k, mt)
		return Val{K: KBool, T: sAnd(sNot(sEq(m.T, "null")), "(select (select "+dh+" "+m.T+") "+k.T+")")}, nil
	}
	a, err := e.evalC(st, env, x.Args[0])
	if err != nil {
		return Val{}, err
	}
	// a literal guard (e.g. defined(x)) short-circuits so that the other side need not be evaluable
	if a.K == KBool {
		if a.T == "false" && (op == "==>" || op == "&&") {
			if op == "==>" {
				return Val{K: KBool, T: "true"}, nil
			}
			return Val{K: KBool, T: "false"}, nil
		}
		if a.T == "true" && op == "||" {
			return Val{K: KBool, T: "true"}, nil
		}
	}
	b, err := e.evalC(st, env, x.Args[1])
	if err != nil {
		return Val{}, err
	}
	switch op {
	case "&&":
		return Val{K: KBool, T: sAnd(a.T, b.T)}, nil
	case "||":
		return Val{K: KBool, T: sOr(a.T, b.T)}, nil
	case "==>":
		return Val{K: KBool, T: sImp(a.T, b.T)}, nil
	case "<==>":
		return Val{K: KBool, T: sEq(a.T, b.T)}, nil
	case "==", "!=":
		if isNilVal(a) && isNilVal(b) {
			return Val{K: KBool, T: "true"}, nil
		}
		if isNilVal(a) {
			a = nilOf(b)
		}
		if isNilVal(b) {
			b = nilOf(a)
		}
		var eq string
		if a.K == KSlice && (b.Base == "null" || a.Base == "null") {
			if b.Base == "null" {
				eq = sEq(a.Base, "null")
			} else {
				eq = sEq(b.Base, "null")
			}
		} else if a.K == KFunc {
			eq = sEq(e.funcID(a), e.funcID(b))
		} else if a.K != b.K {
			if a.K == KReal && b.K == KInt {
				eq = sEq(a.T, "(to_real "+b.T+")")
			} else if a.K == KInt && b.K == KReal {
				eq = sEq("(to_real "+a.T+")", b.T)
			} else {
				return Val{}, fmt.Errorf("comparison of kinds %v and %v in %s", a.K, b.K, x.String())
			}
		} else {
			eq = valEq(a, b)
		}
		if op == "!=" {
			eq = sNot(eq)
		}
		return Val{K: KBool, T: eq}, nil
	}
	if a.K == KReal || b.K == KReal {
		at, bt := a.T, b.T
		if a.K == KInt {
			at = "(to_real " + at + ")"
		}
		if b.K == KInt {
			bt = "(to_real " + bt + ")"
		}
		switch op {
		case "<", "<=", ">", ">=":
			return Val{K: KBool, T: "(" + op + " " + at + " " + bt + ")"}, nil
		case "+", "-", "*", "/":
			return Val{K: KReal, T: "(" + op + " " + at + " " + bt + ")", Ty: types.Typ[types.Float64]}, nil
		}
	}
	if a.K != KInt || b.K != KInt {
		return Val{}, fmt.Errorf("arithmetic on kinds %v, %v in %s", a.K, b.K, x.String())
	}
	switch op {
	case "<":
		return Val{K: KBool, T: sLt(a.T, b.T)}, nil
	case "<=":
		return Val{K: KBool, T: sLe(a.T, b.T)}, nil
	case ">":
		return Val{K: KBool, T: sLt(b.T, a.T)}, nil
	case ">=":
		return Val{K: KBool, T: sLe(b.T, a.T)}, nil
	case "+":
		return Val{K: KInt, T: sAdd(a.T, b.T), Ty: a.Ty}, nil
	case "-":
		return Val{K: KInt, T: sSub(a.T, b.T), Ty: a.Ty}, nil
	case "*":
		return Val{K: KInt, T: sMul(a.T, b.T), Ty: a.Ty}, nil
	case "/":
		return Val{K: KInt, T: "(div " + a.T + " " + b.T + ")", Ty: a.Ty}, nil
	case "%":
		return Val{K: KInt, T: "(mod " + a.T + " " + b.T + ")", Ty: a.Ty}, nil
	case "<<":
		return Val{K: KInt, T: "(* " + a.T + " (pow2 " + b.T + "))", Ty: a.Ty}, nil
	case ">>":
		return Val{K: KInt, T: "(div " + a.T + " (pow2 " + b.T + "))", Ty: a.Ty}, nil
	}
	return Val{}, fmt.Errorf("binary %s", op)
}

func (e *Engine) withOld(st *State, env *cenv, f func(ost *State) (Val, error)) (Val, error) {
	ost := *st
	ost.heaps = map[string]string{}
	if env.old != nil {
		for k, v := range env.old {
			ost.heaps[k] = v
		}
	} else {
		for k, v := range e.initHeaps {
			ost.heaps[k] = v
		}
	}
	// heaps absent from the snapshot are the initial ones (created lazily)
	v, err := f(&ost)
	st.tail = ost.tail
	return v, err
}

func (e *Engine) evalCall(st *State, env *cenv, x *CExpr) (Val, error) {
	fn := x.Args[0]
	args := x.Args[1:]
	name := ""
	if fn.Op == "id" {
		name = fn.Name
	}
	switch name {
	case "old":
		if len(args) != 1 {
			return Val{}, fmt.Errorf("old(e)")
		}
		return e.withOld(st, env, func(ost *State) (Val, error) { return e.evalC(ost, env, args[0]) })
	case "len", "cap":
		v, err := e.evalC(st, env, args[0])
		if err != nil {
			return Val{}, err
		}
		switch v.K {
		case KSlice:
			if name == "cap" {
				return Val{K: KInt, T: v.Cap, Ty: types.Typ[types.Int]}, nil
			}
			return Val{K: KInt, T: v.Len, Ty: types.Typ[types.Int]}, nil
		case KStr:
			return Val{K: KInt, T: "(slen " + v.T + ")", Ty: types.Typ[types.Int]}, nil
		case KArr:
			return Val{K: KInt, T: intLit(int64(len(v.F))), Ty: types.Typ[types.Int]}, nil
		case KAddr:
			if v.Ty != nil {
				if mt, ok := v.Ty.Underlying().(*types.Map); ok {
					e.mapWitness(st, v.T, mt)
					return Val{K: KInt, T: "(select " + st.heap("ML") + " " + v.T + ")", Ty: types.Typ[types.Int]}, nil
				}
			}
		}
		return Val{}, fmt.Errorf("len of kind %v", v.K)
	case "ite":
		c, err := e.evalBool(st, env, args[0])
		if err != nil {
			return Val{}, err
		}
		a, err := e.evalC(st, env, args[1])
		if err != nil {
			return Val{}, err
		}
		b, err := e.evalC(st, env, args[2])
		if err != nil {
			return Val{}, err
		}
		if isNilVal(a) {
			a = nilOf(b)
		}
		if isNilVal(b) {
			b = nilOf(a)
		}
		return valIte(c, a, b), nil
	case "string":
		v, err := e.evalC(st, env, args[0])
		if err != nil {
			return Val{}, err
		}
		if v.K == KSlice {
			if v.Len == "0" {
				return Val{K: KStr, T: "str_empty", Ty: types.Typ[types.String]}, nil
			}
			return Val{K: KStr, T: "(str_of " + st.heap("Hy") + " " + v.Base + " " + v.Off + " " + v.Len + ")", Ty: types.Typ[types.String]}, nil
		}
		if v.K == KStr {
			return v, nil
		}
		return Val{}, fmt.Errorf("string() of kind %v", v.K)
	case "int", "int64", "uint64", "uint", "int32", "uint32", "uint16", "int16", "uint8", "byte", "int8":
		v, err := e.evalC(st, env, args[0])
		if err != nil {
			return Val{}, err
		}
		t := types.Universe.Lookup(name).Type()
		if v.K == KReal {
			return Val{K: KInt, T: "(to_int " + v.T + ")", Ty: t}, nil
		}
		return Val{K: KInt, T: wrapInt(v.T, t, true), Ty: t}, nil
	case "float64":
		v, err := e.evalC(st, env, args[0])
		if err != nil {
			return Val{}, err
		}
		if v.K == KInt {
			return Val{K: KReal, T: "(to_real " + v.T + ")", Ty: types.Typ[types.Float64]}, nil
		}
		return v, nil
	case "defined": // defined(x): the snap variable x was recorded on this path
		if args[0].Op != "id" {
			return Val{}, fmt.Errorf("defined(name)")
		}
		ok := false
		if env.fr != nil {
			_, ok = env.fr.names[args[0].Name]
			if c, has := env.fr.nameDef[args[0].Name]; ok && has {
				return Val{K: KBool, T: c}, nil
			}
		}
		if _, isVar := env.vars[args[0].Name]; isVar {
			ok = true
		}
		if ok {
			return Val{K: KBool, T: "true"}, nil
		}
		return Val{K: KBool, T: "false"}, nil
	case "fresh": // object allocated after function entry
		v, err := e.evalC(st, env, args[0])
		if err != nil {
			return Val{}, err
		}
		t := v.T
		if v.K == KSlice {
			t = v.Base
		}
		if v.K == KIface { // a boxed pointer: the object it points to
			t = "(iaddr " + v.T + ")"
		}
		if env.freshWM != "" {
			return Val{K: KBool, T: "(< (root " + t + ") " + env.freshWM + ")"}, nil
		}
		return Val{K: KBool, T: "(< (root " + t + ") 0)"}, nil
	case "iterfresh": // object allocated in the current iteration of the innermost cut loop (not carried over from an earlier one)
		v, err := e.evalC(st, env, args[0])
		if err != nil {
			return Val{}, err
		}
		t := v.T
		if v.K == KSlice {
			t = v.Base
		}
		if v.K == KIface {
			t = "(iaddr " + v.T + ")"
		}
		if env.fr == nil || env.fr.iterWM == "" {
			return Val{}, fmt.Errorf("iterfresh(): no loop has been cut here")
		}
		return Val{K: KBool, T: "(< (root " + t + ") " + env.fr.iterWM + ")"}, nil
	case "visited": // visited(m, k): the range loop over map m has already produced key k
		v, err := e.evalC(st, env, args[0])
		if err != nil {
			return Val{}, err
		}
		k, err := e.evalC(st, env, args[1])
		if err != nil {
			return Val{}, err
		}
		it := pickIter(st, v)
		if it == nil || it.visited == "" {
			return Val{}, fmt.Errorf("visited(): no (unique) range loop over a map of this type is active here")
		}
		if mt, ok := v.Ty.Underlying().(*types.Map); ok {
			k = e.keyVal(st, k, mt)
		}
		return Val{K: KBool, T: "(select " + it.visited + " " + k.T + ")"}, nil
	case "inrange": // inrange(m): an iteration of the range loop over map m has begun (a Next returned a key)
		v, err := e.evalC(st, env, args[0])
		if err != nil {
			return Val{}, err
		}
		it := pickIter(st, v)
		if it == nil || it.started == "" {
			return Val{}, fmt.Errorf("inrange(): no (unique) range loop over a map of this type is active here")
		}
		return Val{K: KBool, T: it.started}, nil
	case "sameobj":
		a, err := e.evalC(st, env, args[0])
		if err != nil {
			return Val{}, err
		}
		b, err := e.evalC(st, env, args[1])
		if err != nil {
			return Val{}, err
		}
		at, bt := a.T, b.T
		if a.K == KSlice {
			at = a.Base
		}
		if b.K == KSlice {
			bt = b.Base
		}
		return Val{K: KBool, T: sEq("(root "+at+")", "(root "+bt+")")}, nil
	case "xor8", "and8", "or8":
		a, err := e.evalC(st, env, args[0])
		if err != nil {
			return Val{}, err
		}
		b, err := e.evalC(st, env, args[1])
		if err != nil {
			return Val{}, err
		}
		return Val{K: KInt, T: "(" + name + " " + a.T + " " + b.T + ")", Ty: types.Typ[types.Uint8]}, nil
	case "pow2":
		v, err := e.evalC(st, env, args[0])
		if err != nil {
			return Val{}, err
		}
		return Val{K: KInt, T: "(pow2 " + v.T + ")", Ty: types.Typ[types.Int]}, nil
	case "concat": // string concatenation
		a, err := e.evalC(st, env, args[0])
		if err != nil {
			return Val{}, err
		}
		b, err := e.evalC(st, env, args[1])
		if err != nil {
			return Val{}, err
		}
		return Val{K: KStr, T: "(sconcat " + a.T + " " + b.T + ")", Ty: types.Typ[types.String]}, nil
	case "box": // box(x): the interface value holding x (dynamic type = static type of x)
		v, err := e.evalC(st, env, args[0])
		if err != nil {
			return Val{}, err
		}
		if v.Ty == nil {
			return Val{}, fmt.Errorf("box() of untyped value")
		}
		if v.K == KIface {
			return v, nil
		}
		return e.makeIface(st, v, v.Ty, types.NewInterfaceType(nil, nil)), nil
	case "typeis": // typeis(x, T): dynamic type of interface value x is T
		v, err := e.evalC(st, env, args[0])
		if err != nil {
			return Val{}, err
		}
		t, err := e.resolveType(typeTextOf(args[1]), env.pkgPath, env.imports)
		if err != nil {
			return Val{}, err
		}
		return Val{K: KBool, T: sAnd("((_ is ibox) "+v.T+")", sEq("(itag "+v.T+")", intLit(int64(e.typeTag(t)))))}, nil
	case "unboxptr": // pointer payload of an interface value
		v, err := e.evalC(st, env, args[0])
		if err != nil {
			return Val{}, err
		}
		var t types.Type
		if len(args) > 1 {
			t, err = e.resolveType(typeTextOf(args[1]), env.pkgPath, env.imports)
			if err != nil {
				return Val{}, err
			}
		}
		return Val{K: KAddr, T: "(iaddr " + v.T + ")", Ty: t}, nil
	case "unboxstr": // string payload of an interface value that holds a string
		v, err := e.evalC(st, env, args[0])
		if err != nil {
			return Val{}, err
		}
		return Val{K: KStr, T: "(istr " + v.T + ")", Ty: types.Typ[types.String]}, nil
	}
	if g, ok := e.ghosts[name]; ok {
		var av []Val
		for _, a := range args {
			v, err := e.evalC(st, env, a)
			if err != nil {
				return Val{}, err
			}
			av = append(av, v)
		}
		if g.Def != nil {
			ne := &cenv{vars: map[string]Val{}, lets: map[string]*CExpr{}, old: env.old, pkgPath: g.PkgPath, imports: g.Imports, fr: nil}
			if len(av) != len(g.Params) {
				return Val{}, fmt.Errorf("%s: arity", name)
			}
			for i, p := range g.Params {
				v := av[i]
				if isNilVal(v) {
					if t, err := e.resolveType(p.Type, g.PkgPath, g.Imports); err == nil {
						v = st.zeroVal(t)
					}
				}
				if v.Ty == nil || kindOf(v.Ty) != v.K {
					if t, err := e.resolveType(p.Type, g.PkgPath, g.Imports); err == nil && kindOf(t) == v.K {
						v.Ty = t
					}
				}
				ne.vars[p.Name] = v
			}
			return e.evalC(st, ne, g.Def)
		}
		if g.IsState {
			return e.ghostStateRead(st, env, g, av)
		}
		return e.ghostFuncApp(st, g, av)
	}
	return Val{}, fmt.Errorf("unknown function %s in contract", fn.String())
}

func typeTextOf(x *CExpr) string {
	switch x.Op {
	case "id":
		return x.Name
	case "field":
		return typeTextOf(x.Args[0]) + "." + x.Name
	case "un":
		return x.Name + typeTextOf(x.Args[0])
	}
	return x.String()
}

func (e *Engine) ghostResultKind(g *GhostDecl) (Kind, types.Type, error) {
	t, err := e.resolveType(g.Result, g.PkgPath, g.Imports)
	if err != nil {
		return 0, nil, fmt.Errorf("ghost %s: %v", g.Name, err)
	}
	k := kindOf(t)
	switch k {
	case KInt, KBool, KAddr, KStr, KIface, KReal:
		return k, t, nil
	}
	return 0, nil, fmt.Errorf("ghost %s: unsupported result type %s", g.Name, g.Result)
}

func (e *Engine) ghostFuncApp(st *State, g *GhostDecl, args []Val) (Val, error) {
	k, t, err := e.ghostResultKind(g)
	if err != nil {
		return Val{}, err
	}
	if len(args) != len(g.Params) {
		return Val{}, fmt.Errorf("ghost %s: expected %d args", g.Name, len(g.Params))
	}
	var ts []string
	for i, a := range args {
		pt, err := e.resolveType(g.Params[i].Type, g.PkgPath, g.Imports)
		if err != nil {
			return Val{}, err
		}
		if isNilVal(a) {
			a = st.zeroVal(pt)
		}
		switch a.K {
		case KSlice:
			// a slice argument is passed as its content string (byte slices) or as base/off/len
			if pk := kindOf(pt); pk == KSlice {
				ts = append(ts, a.Base, a.Off, a.Len)
				continue
			}
			return Val{}, fmt.Errorf("ghost %s: slice passed for %s", g.Name, g.Params[i].Type)
		case KStruct, KTuple, KArr:
			e.leafVals(a, func(_ Kind, term string) { ts = append(ts, term) })
			continue
		case KFunc:
			ts = append(ts, e.funcID(a))
			continue
		}
		ts = append(ts, a.T)
	}
	e.usedGhostFuncs[g.Name] = true
	if len(ts) == 0 {
		return Val{K: k, T: "gf_" + g.Name, Ty: t}, nil
	}
	return Val{K: k, T: "(gf_" + g.Name + " " + strings.Join(ts, " ") + ")", Ty: t}, nil
}

// ghostFuncDecl renders the declare-fun of a ghost function.
func (e *Engine) ghostFuncDecl(g *GhostDecl) (string, error) {
	k, _, err := e.ghostResultKind(g)
	if err != nil {
		return "", err
	}
	var ps []string
	for _, p := range g.Params {
		pt, err := e.resolveType(p.Type, g.PkgPath, g.Imports)
		if err != nil {
			return "", err
		}
		switch pk := kindOf(pt); pk {
		case KSlice:
			ps = append(ps, "Addr", "Int", "Int")
		case KStruct, KArr, KTuple:
			leafSorts(pt, &ps)
		default:
			ps = append(ps, sortOfKind(pk))
		}
	}
	if len(ps) == 0 {
		return "(declare-const gf_" + g.Name + " " + sortOfKind(k) + ")", nil
	}
	return "(declare-fun gf_" + g.Name + " (" + strings.Join(ps, " ") + ") " + sortOfKind(k) + ")", nil
}

func leafSorts(t types.Type, out *[]string) {
	switch k := kindOf(t); k {
	case KSlice:
		*out = append(*out, "Addr", "Int", "Int", "Int")
	case KStruct:
		s := structOf(t)
		for i := 0; i < s.NumFields(); i++ {
			leafSorts(s.Field(i).Type(), out)
		}
	case KArr:
		a := t.Underlying().(*types.Array)
		for i := int64(0); i < a.Len(); i++ {
			leafSorts(a.Elem(), out)
		}
	default:
		*out = append(*out, sortOfKind(k))
	}
}

func (e *Engine) ghostStateSort(g *GhostDecl) (string, Kind, types.Type, error) {
	k, t, err := e.ghostResultKind(g)
	if err != nil {
		return "", 0, nil, err
	}
	ks := "Addr"
	if len(g.Params) == 1 {
		pt, err := e.resolveType(g.Params[0].Type, g.PkgPath, g.Imports)
		if err != nil {
			return "", 0, nil, err
		}
		pk := kindOf(pt)
		switch pk {
		case KInt, KAddr, KStr, KIface:
			ks = sortOfKind(pk)
		default:
			return "", 0, nil, fmt.Errorf("ghost state %s: unsupported key type", g.Name)
		}
	} else if len(g.Params) > 1 {
		return "", 0, nil, fmt.Errorf("ghost state %s: at most one parameter", g.Name)
	}
	return "(Array " + ks + " " + sortOfKind(k) + ")", k, t, nil
}

func (e *Engine) ghostStateKey(st *State, g *GhostDecl, args []Val) (string, error) {
	if len(g.Params) == 0 {
		return "null", nil
	}
	if len(args) != 1 {
		return "", fmt.Errorf("ghost state %s takes one argument", g.Name)
	}
	a := args[0]
	if isNilVal(a) {
		return "null", nil
	}
	return a.T, nil
}

func (e *Engine) ghostStateRead(st *State, env *cenv, g *GhostDecl, args []Val) (Val, error) {
	_, k, t, err := e.ghostStateSort(g)
	if err != nil {
		return Val{}, err
	}
	key, err := e.ghostStateKey(st, g, args)
	if err != nil {
		return Val{}, err
	}
	return Val{K: k, T: "(select " + st.heap("G$"+g.Name) + " " + key + ")", Ty: t}, nil
}

// ---------- designators (assigns / modifies) ----------

type desig struct {
	heap   string
	single string                // single address (or key) term
	pred   func(a string) string // predicate over addresses, if not single
	whole  bool
}

func (e *Engine) evalDesignators(st *State, env *cenv, texts []string) ([]desig, bool, error) {
	var out []desig
	all := false
	for _, tx := range texts {
		tx = strings.TrimSpace(tx)
		if tx == "*" || tx == "all" || tx == "everything" {
			all = true
			continue
		}
		if tx == "memory" { // every program location, but no ghost state
			out = append(out, desig{heap: "$memory", whole: true})
			continue
		}
		x, err := parseCExpr(tx)
		if err != nil {
			return nil, false, err
		}
		ds, err := e.evalDesignator(st, env, x)
		if err != nil {
			return nil, false, fmt.Errorf("designator %q: %v", tx, err)
		}
		out = append(out, ds...)
	}
	return out, all, nil
}

func (e *Engine) evalDesignator(st *State, env *cenv, x *CExpr) ([]desig, error) {
	var out []desig
	leafSingles := func(addr string, t types.Type) {
		if _, ok := t.Underlying().(*types.Array); ok && t.Underlying().(*types.Array).Len() > 64 {
			a := t.Underlying().(*types.Array)
			for _, hn := range leafHeapsOf(a.Elem()) {
				base := addr
				out = append(out, desig{heap: hn, pred: func(p string) string {
					return "(and (= (root " + p + ") (root " + base + ")))"
				}})
			}
			return
		}
		leafPaths(addr, t, func(a string, k Kind, lt types.Type) {
			out = append(out, desig{heap: heapFor(k, lt), single: a})
		})
	}
	if x.Op == "call" && x.Args[0].Op == "id" {
		name := x.Args[0].Name
		switch name {
		case "elems":
			v, err := e.evalC(st, env, x.Args[1])
			if err != nil {
				return nil, err
			}
			if v.K != KSlice {
				return nil, fmt.Errorf("elems() needs a slice")
			}
			et := v.Ty.Underlying().(*types.Slice).Elem()
			k := kindOf(et)
			b, o, n := v.Base, v.Off, v.Len
			switch k {
			case KInt, KBool, KAddr, KStr, KIface, KReal, KFunc:
				out = append(out, desig{heap: heapFor(k, et), pred: func(a string) string { return inSliceRange(a, b, o, n) }})
			default:
				for _, hn := range leafHeapsOf(et) {
					out = append(out, desig{heap: hn, pred: func(a string) string { return "(= (root " + a + ") (root " + b + "))" }})
				}
			}
			return out, nil
		case "allof":
			// allof(T.f): field f of every object of (named struct) type T
			txt := typeTextOf(x.Args[1])
			k := strings.LastIndex(txt, ".")
			if k < 0 {
				return nil, fmt.Errorf("allof(T.f)")
			}
			tt, err := e.resolveType(txt[:k], env.pkgPath, env.imports)
			if err != nil {
				return nil, err
			}
			stt, ok := tt.Underlying().(*types.Struct)
			if !ok {
				return nil, fmt.Errorf("allof(): %s is not a struct type", txt[:k])
			}
			for i := 0; i < stt.NumFields(); i++ {
				if stt.Field(i).Name() != txt[k+1:] {
					continue
				}
				tag := intLit(int64(e.typeTag(tt)))
				idx := intLit(int64(i))
				owner := func(a string, depth int) string {
					// the address lies at depth levels below an object of type T, entered through field idx
					p := "(path " + a + ")"
					var cs []string
					for d := 0; d < depth; d++ {
						cs = append(cs, "(or ((_ is pfld) "+p+") ((_ is pelem) "+p+"))")
						p = "(ite ((_ is pfld) " + p + ") (pfb " + p + ") (peb " + p + "))"
					}
					cs = append(cs, "((_ is pfld) "+p+")", "(= (pfi "+p+") "+idx+")", "(= (dyntype (ref (root "+a+") (pfb "+p+"))) "+tag+")")
					return sAnd(cs...)
				}
				leafPaths("X", stt.Field(i).Type(), func(a string, lk Kind, lt types.Type) {
					depth := strings.Count(a, "(fld ") + strings.Count(a, "(elem ")
					out = append(out, desig{heap: heapFor(lk, lt), pred: func(a string) string {
						return sAnd("((_ is ref) "+a+")", owner(a, depth))
					}})
				})
				return out, nil
			}
			return nil, fmt.Errorf("allof(): no field %s in %s", txt[k+1:], txt[:k])
		case "allmaps":
			// allmaps(m): every map of m's type
			v, err := e.evalC(st, env, x.Args[1])
			if err != nil {
				return nil, err
			}
			mt, ok := v.Ty.Underlying().(*types.Map)
			if !ok {
				return nil, fmt.Errorf("allmaps() needs a map")
			}
			tag := intLit(int64(e.typeTag(mt)))
			pred := func(a string) string { return "(= (dyntype " + a + ") " + tag + ")" }
			out = append(out, desig{heap: e.mapDomHeap(mt), pred: pred}, desig{heap: "ML", pred: pred})
			for _, vh := range e.mapValueHeaps(mt) {
				out = append(out, desig{heap: vh, pred: pred})
			}
			return out, nil
		case "obj":
			v, err := e.evalC(st, env, x.Args[1])
			if err != nil {
				return nil, err
			}
			t := v.T
			if v.K == KSlice {
				t = v.Base
			}
			if v.K == KIface {
				t = "(iaddr " + v.T + ")"
			}
			for _, hn := range baseHeaps {
				out = append(out, desig{heap: hn, pred: func(a string) string { return "(= (root " + a + ") (root " + t + "))" }})
			}
			return out, nil
		case "under":
			// under(p): the memory at and (up to three selector steps) below the address p holds - the variable a
			// pointer or a boxed pointer designates (a scalar, an array or struct of scalars, ...), not the whole
			// object that contains it
			v, err := e.evalC(st, env, x.Args[1])
			if err != nil {
				return nil, err
			}
			t := v.T
			if v.K == KSlice {
				t = v.Base
			}
			if v.K == KIface {
				t = "(iaddr " + v.T + ")"
			}
			pred := func(a string) string {
				p := "(path " + a + ")"
				cs := []string{"(= " + p + " (path " + t + "))"}
				guard := []string{}
				for d := 0; d < 3; d++ {
					guard = append(guard, "(or ((_ is pfld) "+p+") ((_ is pelem) "+p+"))")
					p = "(ite ((_ is pfld) " + p + ") (pfb " + p + ") (peb " + p + "))"
					cs = append(cs, sAnd(append(append([]string{}, guard...), "(= "+p+" (path "+t+"))")...))
				}
				return sAnd("((_ is ref) "+a+")", "((_ is ref) "+t+")", "(= (root "+a+") (root "+t+"))", sOr(cs...))
			}
			for _, hn := range baseHeaps {
				out = append(out, desig{heap: hn, pred: pred})
			}
			return out, nil
		case "mapof":
			v, err := e.evalC(st, env, x.Args[1])
			if err != nil {
				return nil, err
			}
			mt, ok := v.Ty.Underlying().(*types.Map)
			if !ok {
				return nil, fmt.Errorf("mapof() needs a map")
			}
			out = append(out, desig{heap: e.mapDomHeap(mt), single: v.T}, desig{heap: "ML", single: v.T})
			for _, vh := range e.mapValueHeaps(mt) {
				out = append(out, desig{heap: vh, single: v.T})
			}
			return out, nil
		}
		if g, ok := e.ghosts[name]; ok && g.IsState {
			var av []Val
			for _, a := range x.Args[1:] {
				v, err := e.evalC(st, env, a)
				if err != nil {
					return nil, err
				}
				av = append(av, v)
			}
			key, err := e.ghostStateKey(st, g, av)
			if err != nil {
				return nil, err
			}
			return []desig{{heap: "G$" + g.Name, single: key}}, nil
		}
	}
	if x.Op == "id" {
		if g, ok := e.ghosts[x.Name]; ok && g.IsState {
			if len(g.Params) == 0 {
				return []desig{{heap: "G$" + g.Name, single: "null"}}, nil
			}
			return []desig{{heap: "G$" + g.Name, whole: true}}, nil
		}
	}
	// lvalue
	a, err := e.evalAddr(st, env, x)
	if err != nil {
		return nil, err
	}
	t := derefType(a.Ty)
	if t == nil {
		return nil, fmt.Errorf("designator has no pointee type")
	}
	leafSingles(a.T, t)
	return out, nil
}

func leafHeapsOf(t types.Type) []string {
	seen := map[string]bool{}
	var out []string
	var walk func(t types.Type)
	walk = func(t types.Type) {
		switch k := kindOf(t); k {
		case KSlice:
			for _, h := range []string{"Ha", "Hi"} {
				if !seen[h] {
					seen[h] = true
					out = append(out, h)
				}
			}
		case KStruct:
			s := structOf(t)
			for i := 0; i < s.NumFields(); i++ {
				walk(s.Field(i).Type())
			}
		case KArr:
			walk(t.Underlying().(*types.Array).Elem())
		default:
			h := heapFor(k, t)
			if !seen[h] {
				seen[h] = true
				out = append(out, h)
			}
		}
	}
	walk(t)
	return out
}

// havocDesignators forgets the designated locations.
func (e *Engine) havocDesignators(st *State, env *cenv, texts []string, why string) {
	if len(texts) == 0 {
		return
	}
	ds, all, err := e.evalDesignators(st, env, texts)
	if err != nil {
		e.unsupported("%s: %v", why, err)
		e.havocAll(st)
		return
	}
	if all {
		e.havocAll(st)
		return
	}
	for _, d := range ds {
		if d.heap == "$memory" {
			e.havocAllG(st, false)
			var rest []desig
			for _, x := range ds {
				if x.heap != "$memory" && strings.HasPrefix(x.heap, "G$") {
					rest = append(rest, x)
				}
			}
			ds = rest
			break
		}
	}
	byHeap := map[string][]desig{}
	var order []string
	for _, d := range ds {
		if _, ok := byHeap[d.heap]; !ok {
			order = append(order, d.heap)
		}
		byHeap[d.heap] = append(byHeap[d.heap], d)
	}
	for _, hn := range order {
		list := byHeap[hn]
		allSingle := true
		whole := false
		for _, d := range list {
			if d.whole {
				whole = true
			}
			if d.pred != nil {
				allSingle = false
			}
		}
		srt := e.heapSortOf(hn)
		if whole {
			st.havocHeap(hn)
			continue
		}
		if allSingle {
			// store chain of fresh values
			vs := valueSortOf(srt)
			for _, d := range list {
				f := st.declare("hv", vs)
				st.setHeap(hn, "(store "+st.heap(hn)+" "+d.single+" "+f+")")
			}
			continue
		}
		old := st.heap(hn)
		nw := st.havocHeap(hn)
		ks := keySortOf(srt)
		var cs []string
		for _, d := range list {
			if d.pred != nil {
				cs = append(cs, d.pred("a"))
			} else {
				cs = append(cs, "(= a "+d.single+")")
			}
		}
		st.assume("(forall ((a " + ks + ")) (! (=> (not " + sOr(cs...) + ") (= (select " + nw + " a) (select " + old + " a))) :pattern ((select " + nw + " a))))")
	}
}

func valueSortOf(arraySort string) string {
	// "(Array K V)" -> V
	s := strings.TrimSuffix(strings.TrimPrefix(arraySort, "(Array "), ")")
	// K is a single token or parenthesised
	if strings.HasPrefix(s, "(") {
		d := 0
		for i := 0; i < len(s); i++ {
			if s[i] == '(' {
				d++
			}
			if s[i] == ')' {
				d--
				if d == 0 {
					return strings.TrimSpace(s[i+1:])
				}
			}
		}
	}
	i := strings.Index(s, " ")
	return strings.TrimSpace(s[i+1:])
}

func keySortOf(arraySort string) string {
	s := strings.TrimSuffix(strings.TrimPrefix(arraySort, "(Array "), ")")
	i := strings.Index(s, " ")
	return s[:i]
}

// ---------- frame obligations for the function under contract ----------

type assignsCtx struct {
	all     bool
	byHeap  map[string][]desig
	enabled bool
	// loop-level context (a loop's "modifies" clause, checked while execution is inside the loop body):
	wm   string // objects with a root below wm were allocated after the cut (default: "0", allocated during the call)
	loop int    // ordinal of the loop (0: the function's assigns clause)
}

// activeACs: the frame conditions in force at this point - the function's assigns clause and the modifies clause of
// every cut loop whose body execution is currently in (also while an inlined callee runs inside that body).
func (st *State) activeACs() []*assignsCtx {
	var out []*assignsCtx
	if ac := st.assignsEnv; ac != nil && ac.enabled && !ac.all {
		out = append(out, ac)
	}
	for _, f := range st.frames {
		for h, lac := range f.loopAC {
			if h.blocks[f.block] && !lac.all {
				out = append(out, lac)
			}
		}
	}
	if len(out) > 1 {
		sort.SliceStable(out, func(i, j int) bool { return out[i].loop < out[j].loop })
	}
	return out
}

func (e *Engine) acName(ac *assignsCtx, pos string) string {
	if ac.loop > 0 {
		return fmt.Sprintf("%s.loop%d.modifies@%s", e.curFunc, ac.loop, pos)
	}
	return fmt.Sprintf("%s.assigns@%s", e.curFunc, pos)
}

func (e *Engine) allowedPred(ac *assignsCtx, heap, a string) string {
	if ac.all {
		return "true"
	}
	if !strings.HasPrefix(heap, "G$") {
		for _, d := range ac.byHeap["$memory"] {
			if d.whole {
				return "true"
			}
		}
	}
	var cs []string
	for _, d := range ac.byHeap[heap] {
		switch {
		case d.whole:
			return "true"
		case d.pred != nil:
			cs = append(cs, d.pred(a))
		default:
			cs = append(cs, sEq(a, d.single))
		}
	}
	if strings.HasPrefix(e.heapSortOf(heap), "(Array Addr ") {
		wm := "0" // allocated during this call
		if ac.wm != "" {
			wm = ac.wm // allocated since the loop was cut
		}
		cs = append(cs, "(< (root "+a+") "+wm+")")
	}
	return sOr(cs...)
}

func (e *Engine) checkAssigns(st *State, a Val, t types.Type, pos token.Pos) {
	for _, ac := range st.activeACs() {
		if a.Root != "" && ac.loop == 0 { // fresh object of this activation
			continue
		}
		var cs []string
		leafPaths(a.T, t, func(addr string, k Kind, lt types.Type) {
			cs = append(cs, e.allowedPred(ac, heapFor(k, lt), addr))
		})
		st.addCheck(&Check{Name: e.acName(ac, shortPos(posStr(e, pos))), Kind: "assigns", Goal: sAnd(cs...), Pos: posStr(e, pos), Func: e.curFunc, Bounded: st.boundedNow()})
	}
}

func (e *Engine) checkAssignsRange(st *State, dst Val, pos token.Pos) {
	for _, ac := range st.activeACs() {
		if dst.Root != "" && ac.loop == 0 {
			continue
		}
		q := st.declare("fa", "Int")
		goal := sImp(sAnd(sLe("0", q), sLt(q, dst.Len)), e.allowedPred(ac, "Hy", elemAt(dst.Base, dst.Off, q)))
		st.addCheck(&Check{Name: e.acName(ac, shortPos(posStr(e, pos))), Kind: "assigns", Goal: goal, Pos: posStr(e, pos), Func: e.curFunc})
	}
}

func (e *Engine) checkAssignsMap(st *State, m Val, pos token.Pos) {
	for _, ac := range st.activeACs() {
		if m.Root != "" && ac.loop == 0 {
			continue
		}
		goal := sOr(e.allowedPred(ac, "ML", m.T))
		st.addCheck(&Check{Name: e.acName(ac, shortPos(posStr(e, pos))), Kind: "assigns", Goal: goal, Pos: posStr(e, pos), Func: e.curFunc})
	}
}

func (e *Engine) checkCalleeAssigns(st *State, env *cenv, texts []string, pos token.Pos) {
	acs := st.activeACs()
	if len(acs) == 0 {
		return
	}
	ds, all, err := e.evalDesignators(st, env, texts)
	if err != nil {
		return
	}
	for _, ac := range acs {
		if all {
			st.addCheck(&Check{Name: e.acName(ac, shortPos(posStr(e, pos))), Kind: "assigns", Goal: "false", Pos: posStr(e, pos), Func: e.curFunc})
			continue
		}
		var cs []string
		for _, d := range ds {
			switch {
			case d.heap == "$memory":
				cs = append(cs, e.allowedWhole(ac, "$memory"))
			case d.whole:
				cs = append(cs, e.allowedWhole(ac, d.heap))
			case d.pred != nil:
				q := st.declare("fa", keySortOf(e.heapSortOf(d.heap)))
				cs = append(cs, sImp(d.pred(q), e.allowedPred(ac, d.heap, q)))
			default:
				cs = append(cs, e.allowedPred(ac, d.heap, d.single))
			}
		}
		st.addCheck(&Check{Name: e.acName(ac, shortPos(posStr(e, pos))), Kind: "assigns", Goal: sAnd(cs...), Pos: posStr(e, pos), Func: e.curFunc, Bounded: st.boundedNow()})
	}
}

// checkHavocFrame: a call without a contract is given a frame by the engine (shallow: the objects its arguments refer
// to; or everything). That frame must fit the frame conditions in force, like the assigns clause of a contract would.
func (e *Engine) checkHavocFrame(st *State, key string, everything bool, preds []havocPred, pos token.Pos) {
	for _, ac := range st.activeACs() {
		name := e.acName(ac, shortPos(posStr(e, pos))) + "[" + lastSeg(key) + "]"
		if everything {
			st.addCheck(&Check{Name: name, Kind: "assigns", Goal: e.allowedWhole(ac, "$memory"), Pos: posStr(e, pos), Func: e.curFunc, Clause: "call without a contract: may change all program memory"})
			continue
		}
		var cs []string
		for _, p := range preds {
			if !strings.HasPrefix(e.heapSortOf(p.heap), "(Array Addr ") {
				continue
			}
			q := st.declare("fa", "Addr")
			cs = append(cs, sImp(p.f(q), e.allowedPred(ac, p.heap, q)))
		}
		if len(cs) == 0 {
			continue
		}
		st.addCheck(&Check{Name: name, Kind: "assigns", Goal: sAnd(cs...), Pos: posStr(e, pos), Func: e.curFunc, Clause: "call without a contract: may change the objects its arguments refer to"})
	}
}

type havocPred struct {
	heap string
	f    func(a string) string
}

func (e *Engine) allowedWhole(ac *assignsCtx, heap string) string {
	for _, d := range ac.byHeap[heap] {
		if d.whole {
			return "true"
		}
	}
	return "false"
}


// pickIter: the active map iterator for map value v: the one over the same term, else the only one over a map of the
// same type (contract expressions re-load the map, so the terms need not be identical).
func pickIter(st *State, v Val) *mapIter {
	var same, byType []*mapIter
	for _, it := range st.iters {
		if it == nil || it.isStr || it.isSlice {
			continue
		}
		if it.m.T == v.T {
			same = append(same, it)
		}
		if it.m.Ty != nil && v.Ty != nil && types.Identical(it.m.Ty.Underlying(), v.Ty.Underlying()) {
			byType = append(byType, it)
		}
	}
	if len(same) == 1 {
		return same[0]
	}
	if len(byType) == 1 {
		return byType[0]
	}
	return nil
}
