package main

import (
	"fmt"
	"os"
	"go/constant"
	"go/token"
	"go/types"
	"strings"

	"golang.org/x/tools/go/packages"
	"golang.org/x/tools/go/ssa"
)

type Engine struct {
	prog      *ssa.Program
	pkgs      []*packages.Package
	fset      *token.FileSet
	contracts map[string]*FuncContract
	ghosts    map[string]*GhostDecl
	axioms    []*Clause
	files     []*ContractFile

	nameCtr   int
	checkCtr  int
	typeTags  map[string]int
	tagTypes  []types.Type
	strLits   map[string]string
	strOrder  []string
	globalIDs map[*ssa.Global]int
	funcIDs   map[*ssa.Function]int
	funcByID  []*ssa.Function
	closures  map[string]Val // closure id term -> Go-side closure

	// per function under verification
	initHeaps   map[string]string
	ghostHeaps  map[string]string // ghost state name -> sort
	carried     map[string][]carriedGhost
	trivial     []*Check
	paths       []*pathResult
	unsupp      []string
	curFunc     string
	pathCount   int
	maxPaths    int
	abstracted  map[string]bool
	usedSpecs   map[string]bool
	inlinedFns  map[string]bool
	havocCalls  map[string]bool
	boundedLoops map[string]int
	errConsts   map[*ssa.Global]string
	modulePath  string
	loopCache   map[*ssa.Function]*loopInfo
	hookArgs  []Val
	hookRes   *Val
	curDeferInstr ssa.Instruction // the defer statement whose call is being executed by RunDefers
	gconsts   map[*ssa.Global]*ssa.Const
	guards    map[string]*guardInfo // "pkgpath.Type.field" -> guard
	typedOnce map[string]bool
	retCovers int
	pdomCache map[*ssa.Function]*pdomInfo
	usedGhostFuncs map[string]bool
	inputs      []inputTerm
	funcIndex   map[string]*ssa.Function
	axiomSMT    string
	axiomCount  int
	axiomErrors []string
}

type guardInfo struct {
	mutexIdx int
	tags     []string
	typ      string
}

type pathResult struct {
	tail  *node
	end   string // how the path ended
	fn    string
}

func (e *Engine) unsupported(format string, args ...interface{}) {
	m := fmt.Sprintf(format, args...)
	for _, u := range e.unsupp {
		if u == m {
			return
		}
	}
	e.unsupp = append(e.unsupp, m)
}

func (e *Engine) heapSortOf(name string) string {
	if s := heapSort(name); s != "" {
		return s
	}
	if s, ok := e.ghostHeaps[name]; ok {
		return s
	}
	if strings.HasPrefix(name, "MD$") { // map domain: MD$K
		return "(Array Addr (Array " + name[3:] + " Bool))"
	}
	if strings.HasPrefix(name, "MS$") { // struct-valued map, one leaf: MS$K$V$<tag>_<leaf>
		p := strings.SplitN(name[3:], "$", 3)
		return "(Array Addr (Array " + p[0] + " " + p[1] + "))"
	}
	if strings.HasPrefix(name, "MV$") { // map values: MV$K$V
		p := strings.SplitN(name[3:], "$", 2)
		return "(Array Addr (Array " + p[0] + " " + p[1] + "))"
	}
	panic("unknown heap " + name)
}

func (e *Engine) typeTag(t types.Type) int {
	s := types.TypeString(t, nil)
	if id, ok := e.typeTags[s]; ok {
		return id
	}
	id := len(e.typeTags) + 1
	e.typeTags[s] = id
	e.tagTypes = append(e.tagTypes, t)
	return id
}

func (e *Engine) strLit(s string) string {
	if s == "" {
		return "str_empty"
	}
	if n, ok := e.strLits[s]; ok {
		return n
	}
	n := fmt.Sprintf("strlit_%d", len(e.strLits)+1)
	e.strLits[s] = n
	e.strOrder = append(e.strOrder, s)
	return n
}

func (e *Engine) globalAddr(g *ssa.Global) string {
	id, ok := e.globalIDs[g]
	if !ok {
		id = 1000000 + len(e.globalIDs)
		e.globalIDs[g] = id
	}
	return fmt.Sprintf("(ref %d pnil)", id)
}

func (e *Engine) funcID(v Val) string {
	if v.T != "" {
		return v.T
	}
	if v.Fn != nil {
		if len(v.Bind) == 0 {
			id, ok := e.funcIDs[v.Fn]
			if !ok {
				id = 1000 + len(e.funcIDs)
				e.funcIDs[v.Fn] = id
			}
			return intLit(int64(id))
		}
		e.nameCtr++
		t := intLit(int64(5000000 + e.nameCtr))
		e.closures[t] = v
		return t
	}
	return "0"
}

// ---------- operand evaluation ----------

func (st *State) operand(v ssa.Value) Val {
	fr := st.top()
	switch x := v.(type) {
	case *ssa.Const:
		return st.constVal(x)
	case *ssa.Global:
		a := st.e.globalAddr(x)
		st.typeFact(a, x.Type())
		return Val{K: KAddr, T: a, Ty: x.Type(), NonNil: true}
	case *ssa.Function:
		return Val{K: KFunc, Fn: x, Ty: x.Type()}
	case *ssa.Builtin:
		return Val{K: KFunc, Ty: x.Type()}
	}
	if r, ok := fr.regs[v]; ok {
		return r
	}
	st.e.unsupported("use of undefined value %s in %s", v.Name(), fr.fn.String())
	return st.freshVal(v.Type(), "undef")
}

func (st *State) constVal(c *ssa.Const) Val {
	t := c.Type()
	k := kindOf(t)
	if c.Value == nil { // zero value / nil
		if b, ok := t.Underlying().(*types.Basic); ok && b.Kind() == types.UntypedNil {
			return Val{K: KAddr, T: "null", Ty: t}
		}
		return st.zeroVal(t)
	}
	switch k {
	case KBool:
		if constant.BoolVal(c.Value) {
			return Val{K: KBool, T: "true", Ty: t}
		}
		return Val{K: KBool, T: "false", Ty: t}
	case KInt:
		iv := constant.ToInt(c.Value)
		if bi, ok := constant.Val(iv).(interface{ String() string }); ok {
			s := bi.String()
			if strings.HasPrefix(s, "-") {
				s = "(- " + s[1:] + ")"
			}
			return Val{K: KInt, T: s, Ty: t}
		}
		if i64, ok := constant.Int64Val(iv); ok {
			return Val{K: KInt, T: intLit(i64), Ty: t}
		}
		return Val{K: KInt, T: iv.ExactString(), Ty: t}
	case KReal:
		f, _ := constant.Float64Val(c.Value)
		s := fmt.Sprintf("%.17f", f)
		if f < 0 {
			s = fmt.Sprintf("(- %.17f)", -f)
		}
		return Val{K: KReal, T: s, Ty: t}
	case KStr:
		return Val{K: KStr, T: st.e.strLit(constant.StringVal(c.Value)), Ty: t}
	}
	st.e.unsupported("constant of kind %v", k)
	return st.zeroVal(t)
}

func posStr(e *Engine, p token.Pos) string {
	if !p.IsValid() {
		return ""
	}
	ps := e.fset.Position(p)
	return fmt.Sprintf("%s:%d", ps.Filename, ps.Line)
}

func (st *State) safetyOn() bool {
	// safety obligations are asserted when the function under contract asked for them
	c := st.frames[0].contract
	return c != nil && c.Checks["safety"]
}

// boundsOn: "checks bounds" asks for the run-time checks that depend on data (index, slice, division, allocation size,
// type assertion) but not for nil dereferences or the @SAFETY preconditions of callees - for functions whose
// non-nil-ness facts live in structures shared between goroutines.
func (st *State) boundsOn() bool {
	c := st.frames[0].contract
	return c != nil && c.Checks["bounds"]
}

// guard asserts (safety on) or assumes (safety off) a run-time condition that Go checks with a panic.
func (st *State) guard(kind, cond string, pos token.Pos) {
	if cond == "true" {
		return
	}
	if st.safetyOn() || (st.boundsOn() && kind != "nil" && kind != "mapnil") {
		fr := st.top()
		name := fmt.Sprintf("%s.safety.%s@%s", st.e.curFunc, kind, shortPos(posStr(st.e, pos)))
		if len(st.frames) > 1 {
			name += "[in " + fr.fn.Name() + "]"
		}
		st.addCheck(&Check{Name: name, Kind: "safety." + kind, Goal: cond, Pos: posStr(st.e, pos), Func: st.e.curFunc, Bounded: st.boundedNow()})
	}
	st.assume(cond)
}

func (st *State) boundedNow() int {
	b := 0
	for _, f := range st.frames {
		if f.bounded > b {
			b = f.bounded
		}
	}
	return b
}

func shortPos(p string) string {
	if i := strings.LastIndex(p, "/"); i >= 0 {
		return p[i+1:]
	}
	return p
}

// ---------- the main interpreter loop ----------

// explore runs the path(s) starting in st and returns the states that "arrived":
//   - at block stop in the frame at depth stopDepth (arrival 1; used to merge the arms of a branch at its join), or
//   - back in the frame at depth retDepth after a return of an inlined callee (arrival 2; used to merge the callee's
//     return paths at the call's continuation).
// All other paths run to their end (function return, panic, loop back edge).
func (e *Engine) explore(st *State, stopDepth int, stop *ssa.BasicBlock, retDepth int) []*State {
	var pending []*State
	arrived := func() bool {
		if stop != nil && !st.dead && len(st.frames) == stopDepth && st.top().block == stop && st.top().idx == firstNonPhi(stop) {
			st.arrival = 1
			return true
		}
		return false
	}
	if arrived() {
		return []*State{st}
	}
	split := func(arr []*State) (blk, ret []*State) {
		for _, a := range arr {
			if a.arrival == 2 {
				ret = append(ret, a)
			} else {
				blk = append(blk, a)
			}
		}
		return
	}
	for !st.dead {
		st.steps++
		if st.steps > 40000 {
			e.unsupported("path too long in %s", e.curFunc)
			return pending
		}
		fr := st.top()
		if fr.idx >= len(fr.block.Instrs) {
			e.unsupported("fell off block in %s", fr.fn.String())
			return pending
		}
		instr := fr.block.Instrs[fr.idx]
		fr.idx++
		d0 := len(st.frames)
		switch in := instr.(type) {
		case *ssa.If:
			c := st.operand(in.Cond).T
			t, f := fr.block.Succs[0], fr.block.Succs[1]
			if c == "true" || (c != "false" && st.knows(c)) {
				e.enterBlock(st, t)
				if arrived() {
					return append(pending, st)
				}
				continue
			}
			if c == "false" || st.knows(sNot(c)) {
				e.enterBlock(st, f)
				if arrived() {
					return append(pending, st)
				}
				continue
			}
			if e.pathCount > e.maxPaths {
				e.unsupported("too many paths in %s", e.curFunc)
				return pending
			}
			depth := len(st.frames)
			join := e.ipdom(fr.fn, fr.block)
			if join != nil && e.loops(fr.fn).headers[join] != nil {
				join = nil // do not merge at loop headers (they are cut points with their own protocol)
			}
			if join == nil || os.Getenv("GOVC_NOMERGE") != "" {
				st2 := st.clone()
				st2.assumeBranch(c)
				e.enterBlock(st2, st2.top().block.Succs[0])
				pending = append(pending, e.explore(st2, stopDepth, stop, retDepth)...)
				st.assumeBranch(sNot(c))
				e.enterBlock(st, f)
				if arrived() {
					return append(pending, st)
				}
				continue
			}
			forkTail, forkKnown := st.tail, st.known
			st2 := st.clone()
			st2.assumeBranch(c)
			e.enterBlock(st2, st2.top().block.Succs[0])
			a1, r1 := split(e.explore(st2, depth, join, retDepth))
			st.assumeBranch(sNot(c))
			e.enterBlock(st, f)
			a2, r2 := split(e.explore(st, depth, join, retDepth))
			pending = append(pending, r1...)
			pending = append(pending, r2...)
			arr := append(a1, a2...)
			if len(arr) == 0 {
				return pending
			}
			m := e.mergeStates(forkTail, forkKnown, arr)
			if m == nil {
				// not mergeable: continue every arrival on its own
				for _, a := range arr {
					a.arrival = 0
					pending = append(pending, e.explore(a, stopDepth, stop, retDepth)...)
				}
				return pending
			}
			st = m
			st.arrival = 0
			if arrived() {
				return append(pending, st)
			}
			continue
		case *ssa.Jump:
			e.enterBlock(st, fr.block.Succs[0])
			if arrived() {
				return append(pending, st)
			}
			continue
		case *ssa.Return:
			var res []Val
			for _, r := range in.Results {
				res = append(res, st.operand(r))
			}
			e.doReturn(st, res, in.Pos())
			if retDepth > 0 && !st.dead && len(st.frames) == retDepth {
				st.arrival = 2
				return append(pending, st)
			}
			continue
		case *ssa.Panic:
			if st.safetyOn() {
				st.addCheck(&Check{Name: fmt.Sprintf("%s.safety.panic@%s", e.curFunc, shortPos(posStr(e, in.Pos()))), Kind: "safety.panic", Goal: "false", Pos: posStr(e, in.Pos()), Func: e.curFunc})
			}
			e.endPath(st, "panic")
			return pending
		case *ssa.RunDefers:
			if len(fr.defers) > 0 {
				d := fr.defers[len(fr.defers)-1]
				fr.defers = fr.defers[:len(fr.defers)-1]
				fr.idx-- // come back here until the stack is empty
				if d.guard != "" && d.guard != "true" && !st.knows(d.guard) {
					if d.guard == "false" || st.knows(sNot(d.guard)) {
						continue
					}
					// the defer statement was executed only on some of the merged arms
					st2 := st.clone()
					st2.assumeBranch(sNot(d.guard))
					pending = append(pending, e.explore(st2, stopDepth, stop, retDepth)...)
					st.assumeBranch(d.guard)
				}
				e.curDeferInstr = d.instr
				e.doCall(st, d.call, d.fn, d.args, nil, in.Pos(), true)
				e.curDeferInstr = nil
			}
		default:
			e.execInstr(st, instr)
		}
		// an inlined callee was entered: run it to its returns and merge them at the continuation
		if !st.dead && len(st.frames) == d0+1 {
			forkTail, forkKnown := st.tail, st.known
			arr := e.explore(st, 0, nil, d0)
			if len(arr) == 0 {
				return pending
			}
			m := e.mergeStates(forkTail, forkKnown, arr)
			if m == nil {
				for _, a := range arr {
					a.arrival = 0
					pending = append(pending, e.explore(a, stopDepth, stop, retDepth)...)
				}
				return pending
			}
			st = m
			st.arrival = 0
		}
	}
	return pending
}

func (e *Engine) endPath(st *State, how string) {
	if st.summary != nil {
		// a path that ends inside a summarised callee (panic, unsupported) is dropped from the summary
		st.summary.dropped++
		st.dead = true
		return
	}
	st.dead = true
	e.pathCount++
	e.paths = append(e.paths, &pathResult{tail: st.tail, end: how, fn: e.curFunc})
}

func (e *Engine) doReturn(st *State, res []Val, pos token.Pos) {
	fr := st.top()
	if st.summary != nil && len(st.frames) == st.summary.base {
		st.summary.outs = append(st.summary.outs, summaryOut{tail: st.tail, res: res, wmBase: st.wmBase, wmK: st.wmK})
		st.dead = true
		return
	}
	if len(st.frames) == 1 {
		e.checkPost(st, res, pos)
		e.endPath(st, "return")
		return
	}
	// pop inlined frame
	st.frames = st.frames[:len(st.frames)-1]
	caller := st.top()
	if fr.retTo != nil {
		var v Val
		switch len(res) {
		case 0:
			v = Val{K: KUnit}
		case 1:
			v = res[0]
		default:
			v = Val{K: KTuple, F: res, Ty: fr.retTo.Type()}
		}
		caller.regs[fr.retTo] = v
		// "after" hooks of the function under contract also fire when the callee was inlined
		if ci, ok := fr.retTo.(ssa.Instruction); ok && len(st.frames) == 1 && !st.dead {
			e.hookArgs = fr.params
			e.hookRes = &v
			e.runHooks(st, caller, ci, keyOf(fr.fn), "after")
			e.hookRes = nil
		}
	} else if fr.deferSite != nil && len(st.frames) == 1 && !st.dead {
		// an inlined DEFERRED call has run: its after-hooks fire now (in the order the deferred calls execute)
		e.hookArgs = fr.params
		e.hookRes = nil
		e.runHooks(st, caller, fr.deferSite, keyOf(fr.fn), "after")
	}
}

// enterBlock moves the top frame to block b, evaluating phis and cutting loops.
func (e *Engine) enterBlock(st *State, b *ssa.BasicBlock) {
	fr := st.top()
	from := fr.block
	li := e.loops(fr.fn)
	hdr := li.headers[b]
	if hdr != nil {
		isBack := li.isBackEdge(from, b)
		spec := e.loopSpec(fr, hdr)
		if spec == nil || (len(spec.Invs) == 0 && spec.Unroll == 0) {
			// reported as an undecided obligation of the function; exploration goes on with the weakest cut (invariant
			// "true", everything the loop may write havocked) so that obligations behind the loop are still generated
			e.unsupported("loop %d of %s has no invariant", hdr.ord, fr.fn.String())
			spec = &LoopSpec{Ord: hdr.ord}
		}
		if spec.Unroll > 0 {
			e.boundedLoops[fmt.Sprintf("%s loop %d", fr.fn.String(), hdr.ord)] = spec.Unroll
			if fr.bounded < spec.Unroll {
				fr.bounded = spec.Unroll
			}
			if isBack {
				fr.unrolled[b]++
				if fr.unrolled[b] > spec.Unroll {
					// bound reached: stop exploring (bounded stand-in, not a proof)
					e.endPath(st, "unroll-bound")
					return
				}
			} else {
				fr.unrolled[b] = 0
			}
			e.assignPhis(st, from, b)
			fr.prev, fr.block, fr.idx = from, b, firstNonPhi(b)
			return
		}
		if isBack && fr.cut[b] {
			// evaluate phis along the back edge, assert invariants, stop
			e.assignPhis(st, from, b)
			fr.prev, fr.block, fr.idx = from, b, firstNonPhi(b)
			e.loopInvariants(st, fr, hdr, spec, "preserve")
			e.endPath(st, "loop-back")
			return
		}
		// entry edge
		e.assignPhis(st, from, b)
		fr.prev, fr.block, fr.idx = from, b, firstNonPhi(b)
		e.loopInvariants(st, fr, hdr, spec, "init")
		e.havocLoop(st, fr, hdr, spec)
		// everything allocated from here on belongs to the current iteration of this loop (iterfresh)
		st.bumpWatermark()
		fr.iterWM = st.wm()
		e.loopInvariants(st, fr, hdr, spec, "assume")
		fr.cut[b] = true
		return
	}
	e.assignPhis(st, from, b)
	fr.prev, fr.block, fr.idx = from, b, firstNonPhi(b)
}

func firstNonPhi(b *ssa.BasicBlock) int {
	for i, in := range b.Instrs {
		if _, ok := in.(*ssa.Phi); !ok {
			return i
		}
	}
	return len(b.Instrs)
}

func (e *Engine) assignPhis(st *State, from, to *ssa.BasicBlock) {
	fr := st.top()
	idx := -1
	for i, p := range to.Preds {
		if p == from {
			idx = i
			break
		}
	}
	if idx < 0 {
		return
	}
	// parallel assignment
	var phis []*ssa.Phi
	var vals []Val
	for _, in := range to.Instrs {
		p, ok := in.(*ssa.Phi)
		if !ok {
			break
		}
		phis = append(phis, p)
		vals = append(vals, st.operand(p.Edges[idx]))
	}
	for i, p := range phis {
		v := vals[i]
		v.Ty = p.Type()
		fr.regs[p] = v
		if p.Comment != "" {
			fr.names[p.Comment] = v
			delete(fr.nameAddr, p.Comment)
		}
		if p.Comment == "rangeindex" {
			// "ranged": the (unnamed) slice a range loop iterates over, for invariants about its elements
			if refs := p.Referrers(); refs != nil {
				for _, r1 := range *refs {
					bo, ok := r1.(*ssa.BinOp)
					if !ok || bo.Referrers() == nil {
						continue
					}
					for _, r2 := range *bo.Referrers() {
						if ia, ok := r2.(*ssa.IndexAddr); ok {
							if rv, ok := fr.regs[ia.X]; ok {
								fr.names["ranged"] = rv
								delete(fr.nameAddr, "ranged")
							}
						}
					}
				}
			}
		}
	}
}

// ---------- straight-line instructions ----------

func (e *Engine) execInstr(st *State, instr ssa.Instruction) {
	fr := st.top()
	set := func(v ssa.Value, x Val) {
		if x.Ty == nil {
			x.Ty = v.Type()
		}
		fr.regs[v] = x
	}
	switch in := instr.(type) {
	case *ssa.DebugRef:
		if id, ok := in.Expr.(interface{ String() string }); ok {
			_ = id
		}
		name := exprName(in)
		if name != "" {
			fr.names[name] = st.operand(in.X)
			if in.IsAddr {
				fr.nameAddr[name] = true
			} else {
				delete(fr.nameAddr, name)
			}
		}
	case *ssa.Alloc:
		t := derefType(in.Type())
		root := st.newRoot()
		addr := "(ref " + root + " pnil)"
		st.private[root] = true
		st.assumeZeroAt(addr, t)
		st.typeFact(addr, in.Type())
		set(in, Val{K: KAddr, T: addr, Ty: in.Type(), Root: root, NonNil: true})
		if in.Comment != "" {
			fr.names[in.Comment] = fr.regs[in]
			fr.nameAddr[in.Comment] = true
		}
	case *ssa.BinOp:
		set(in, e.binop(st, in.Op, st.operand(in.X), st.operand(in.Y), in.X.Type(), in.Type(), in.Pos()))
	case *ssa.UnOp:
		x := st.operand(in.X)
		switch in.Op {
		case token.MUL:
			if g, isG := in.X.(*ssa.Global); isG {
				if c := e.errConst(g); c != "" {
					set(in, Val{K: KIface, T: c, NonNil: true})
					break
				}
				if c, ok := e.globalConst(g); ok {
					set(in, st.constVal(c))
					break
				}
			}
			if !x.NonNil {
				st.guard("nil", sNot(sEq(x.T, "null")), in.Pos())
			}
			set(in, st.load(x.T, in.Type(), x.Root))
		case token.NOT:
			set(in, Val{K: KBool, T: sNot(x.T)})
		case token.SUB:
			if x.K == KReal {
				set(in, Val{K: KReal, T: "(- " + x.T + ")"})
			} else {
				set(in, Val{K: KInt, T: wrapInt(sSub("0", x.T), in.Type(), false)})
			}
		case token.XOR:
			// ^x = -x-1 (signed) ; for unsigned: max - x
			lo, hi, _, signed, ok := intRange(in.Type())
			_ = lo
			if ok && !signed {
				set(in, Val{K: KInt, T: sSub(bigLit(hi), x.T)})
			} else {
				set(in, Val{K: KInt, T: sSub(sSub("0", x.T), "1")})
			}
		case token.ARROW:
			e.abstracted["channel receive (fresh value)"] = true
			e.cancelCheck(st, in, "receive", in.X, in.Pos())
			if in.CommaOk {
				tp := in.Type().(*types.Tuple)
				set(in, Val{K: KTuple, F: []Val{st.freshVal(tp.At(0).Type(), "recv"), st.freshVal(tp.At(1).Type(), "recvok")}})
			} else {
				set(in, st.freshVal(in.Type(), "recv"))
			}
		default:
			e.unsupported("unop %v", in.Op)
			set(in, st.freshVal(in.Type(), "unop"))
		}
	case *ssa.Call:
		fnv := Val{}
		if !in.Call.IsInvoke() {
			fnv = st.operand(in.Call.Value)
		}
		var args []Val
		if in.Call.IsInvoke() {
			args = append(args, st.operand(in.Call.Value))
		}
		for _, a := range in.Call.Args {
			args = append(args, st.operand(a))
		}
		e.doCall(st, &in.Call, fnv, args, in, in.Pos(), false)
	case *ssa.Defer:
		fnv := Val{}
		if !in.Call.IsInvoke() {
			fnv = st.operand(in.Call.Value)
		}
		var args []Val
		if in.Call.IsInvoke() {
			args = append(args, st.operand(in.Call.Value))
		}
		for _, a := range in.Call.Args {
			args = append(args, st.operand(a))
		}
		if len(st.frames) == 1 {
			// atcall hooks see a deferred call at the defer statement (where it is scheduled), as "defer <callee>"
			key := "<dynamic func value>"
			if in.Call.IsInvoke() {
				key = methodKey(in.Call.Value.Type(), in.Call.Method.Name())
			} else if f := in.Call.StaticCallee(); f != nil {
				key = keyOf(f)
			}
			e.hookArgs = args
			e.runHooks(st, fr, in, "defer "+key, "before")
			if st.dead {
				return
			}
		}
		fr.defers = append(fr.defers, deferRec{call: &in.Call, fn: fnv, args: args, pos: posStr(e, in.Pos()), instr: in})
	case *ssa.Go:
		e.abstracted["go statement (callee effects not sequenced)"] = true
		fnv := Val{}
		if !in.Call.IsInvoke() {
			fnv = st.operand(in.Call.Value)
		}
		var args []Val
		if in.Call.IsInvoke() {
			args = append(args, st.operand(in.Call.Value))
		}
		for _, a := range in.Call.Args {
			args = append(args, st.operand(a))
		}
		e.doGo(st, &in.Call, fnv, args, in.Pos(), in)
	case *ssa.ChangeType:
		v := st.operand(in.X)
		v.Ty = in.Type()
		set(in, v)
	case *ssa.ChangeInterface:
		v := st.operand(in.X)
		v.Ty = in.Type()
		set(in, v)
	case *ssa.Convert:
		set(in, e.convert(st, st.operand(in.X), in.X.Type(), in.Type(), in.Pos()))
	case *ssa.MultiConvert:
		set(in, e.convert(st, st.operand(in.X), in.X.Type(), in.Type(), in.Pos()))
	case *ssa.MakeInterface:
		set(in, e.makeIface(st, st.operand(in.X), in.X.Type(), in.Type()))
	case *ssa.TypeAssert:
		e.typeAssert(st, in)
	case *ssa.Extract:
		t := st.operand(in.Tuple)
		if in.Index < len(t.F) {
			set(in, t.F[in.Index])
		} else {
			e.unsupported("extract out of range")
			set(in, st.freshVal(in.Type(), "ext"))
		}
	case *ssa.Field:
		x := st.operand(in.X)
		if in.Field < len(x.F) {
			set(in, x.F[in.Field])
		} else {
			e.unsupported("field of non-struct value")
			set(in, st.freshVal(in.Type(), "fld"))
		}
	case *ssa.FieldAddr:
		x := st.operand(in.X)
		if !x.NonNil {
			st.guard("nil", sNot(sEq(x.T, "null")), in.Pos())
		}
		set(in, Val{K: KAddr, T: "(fld " + x.T + " " + intLit(int64(in.Field)) + ")", Ty: in.Type(), Root: x.Root, NonNil: true})
		if top := st.frames[0].contract; top != nil && len(top.NeverReads) > 0 {
			if n := namedOf(in.X.Type()); n != nil {
				if stt, ok := n.Underlying().(*types.Struct); ok {
					key := n.Obj().Name() + "." + stt.Field(in.Field).Name()
					for _, nr := range top.NeverReads {
						if nr == key {
							st.addCheck(&Check{Name: fmt.Sprintf("%s.neverreads[%s]@%s", e.curFunc, key, shortPos(posStr(e, in.Pos()))), Kind: "callsonly", Goal: "false", Pos: posStr(e, in.Pos()), Tags: top.NeverTags, Func: e.curFunc,
								Clause: "neverreads " + key + ": the field is accessed here"})
						}
					}
				}
			}
		}
		if len(e.guards) > 0 {
			if n := namedOf(in.X.Type()); n != nil && n.Obj().Pkg() != nil {
				if stt, ok := n.Underlying().(*types.Struct); ok {
					key := n.Obj().Pkg().Path() + "." + n.Obj().Name() + "." + stt.Field(in.Field).Name()
					if g, ok := e.guards[key]; ok && x.Root == "" {
						m := "(fld " + x.T + " " + intLit(int64(g.mutexIdx)) + ")"
						goal := sOr("(select "+st.heap("G$held")+" "+m+")", "(> (select "+st.heap("G$rheld")+" "+m+") 0)")
						st.addCheck(&Check{Name: fmt.Sprintf("%s.ghost.guard[%s.%s]@%s", e.curFunc, n.Obj().Name(), stt.Field(in.Field).Name(), shortPos(posStr(e, in.Pos()))), Kind: "ghost.guard", Goal: goal,
							Pos: posStr(e, in.Pos()), Tags: g.tags, Func: e.curFunc, Clause: "guardedby " + g.typ})
					}
				}
			}
		}
	case *ssa.Index:
		x := st.operand(in.X)
		i := st.operand(in.Index)
		if x.K == KStr {
			st.guard("index", sAnd(sLe("0", i.T), sLt(i.T, "(slen "+x.T+")")), in.Pos())
			t := st.define("ch", "Int", "(sat "+x.T+" "+i.T+")")
			st.assume(sAnd(sLe("0", t), sLe(t, "255")))
			set(in, Val{K: KInt, T: t})
			break
		}
		if n, ok := litVal(i.T); ok && int(n) < len(x.F) && n >= 0 {
			set(in, x.F[n])
		} else if len(x.F) > 0 {
			st.guard("index", sAnd(sLe("0", i.T), sLt(i.T, intLit(int64(len(x.F))))), in.Pos())
			r := x.F[len(x.F)-1]
			for k := len(x.F) - 2; k >= 0; k-- {
				r = valIte(sEq(i.T, intLit(int64(k))), x.F[k], r)
			}
			set(in, r)
		} else {
			e.unsupported("index on value of kind %v", x.K)
			set(in, st.freshVal(in.Type(), "idx"))
		}
	case *ssa.IndexAddr:
		x := st.operand(in.X)
		i := st.operand(in.Index)
		if x.K == KSlice {
			st.guard("index", sAnd(sLe("0", i.T), sLt(i.T, x.Len)), in.Pos())
			set(in, Val{K: KAddr, T: elemAt(x.Base, x.Off, i.T), Ty: in.Type(), Root: x.Root, NonNil: true})
		} else { // pointer to array
			if !x.NonNil {
				st.guard("nil", sNot(sEq(x.T, "null")), in.Pos())
			}
			n := int64(0)
			if a, ok := derefType(in.X.Type()).Underlying().(*types.Array); ok {
				n = a.Len()
			}
			st.guard("index", sAnd(sLe("0", i.T), sLt(i.T, intLit(n))), in.Pos())
			set(in, Val{K: KAddr, T: "(elem " + x.T + " " + i.T + ")", Ty: in.Type(), Root: x.Root, NonNil: true})
		}
	case *ssa.Slice:
		e.sliceOp(st, in)
	case *ssa.Store:
		a := st.operand(in.Addr)
		v := st.operand(in.Val)
		if !a.NonNil {
			st.guard("nil", sNot(sEq(a.T, "null")), in.Pos())
		}
		if fa, ok := in.Addr.(*ssa.FieldAddr); ok {
			e.guardedWrite(st, fa, in.Pos())
		}
		e.checkAssigns(st, a, in.Val.Type(), in.Pos())
		if a.Root == "" || !st.private[a.Root] {
			st.escape(v)
		} else {
			// storing into a private object keeps the stored pointer private only if the container stays private;
			// conservatively treat the stored value as escaped unless it is scalar
			st.escape(v)
		}
		st.store(a.T, v, in.Val.Type())
	case *ssa.MakeSlice:
		ln := st.operand(in.Len)
		cp := st.operand(in.Cap)
		st.guard("makeslice", sAnd(sLe("0", ln.T), sLe(ln.T, cp.T)), in.Pos())
		root := st.newRoot()
		addr := "(ref " + root + " pnil)"
		st.private[root] = true
		et := in.Type().Underlying().(*types.Slice).Elem()
		if n, ok := litVal(cp.T); ok && n <= 32 && kindOf(et) != KStruct {
			for i := int64(0); i < n; i++ {
				st.assumeZeroAt("(elem "+addr+" "+intLit(i)+")", et)
			}
		} else {
			st.assumeZeroRange(addr, "0", cp.T, et)
		}
		set(in, Val{K: KSlice, Base: addr, Off: "0", Len: ln.T, Cap: cp.T, Root: root, NonNil: true})
	case *ssa.MakeMap:
		root := st.newRoot()
		addr := "(ref " + root + " pnil)"
		st.private[root] = true
		mt := in.Type().Underlying().(*types.Map)
		e.mapInitEmpty(st, addr, mt)
		st.typeFact(addr, in.Type())
		set(in, Val{K: KAddr, T: addr, Root: root, NonNil: true})
	case *ssa.MakeChan:
		root := st.newRoot()
		set(in, Val{K: KAddr, T: "(ref " + root + " pnil)", NonNil: true})
	case *ssa.MakeClosure:
		fn := in.Fn.(*ssa.Function)
		var b []Val
		for _, x := range in.Bindings {
			v := st.operand(x)
			b = append(b, v)
		}
		set(in, Val{K: KFunc, Fn: fn, Bind: b})
	case *ssa.Lookup:
		e.lookup(st, in)
	case *ssa.MapUpdate:
		if u, ok := in.Map.(*ssa.UnOp); ok && u.Op == token.MUL {
			if fa, ok := u.X.(*ssa.FieldAddr); ok {
				e.guardedWrite(st, fa, in.Pos())
			}
		}
		e.mapUpdate(st, in)
	case *ssa.Range:
		x := st.operand(in.X)
		it := &mapIter{m: x, started: "false"}
		if x.K == KStr {
			it.isStr = true
			e.unsupported("range over string")
		} else {
			mt := in.X.Type().Underlying().(*types.Map)
			ks := e.mapKeySort(mt)
			it.keyKind = e.mapKeyKind(mt)
			vis := st.declare("visited", "(Array "+ks+" Bool)")
			st.assume("(forall ((k " + ks + ")) (! (not (select " + vis + " k)) :pattern ((select " + vis + " k))))")
			it.visited = vis
		}
		st.iters[in] = it
		set(in, Val{K: KUnit})
	case *ssa.Next:
		e.next(st, in)
	case *ssa.Select:
		e.cancelCheckSelect(st, in)
		if in.Blocking && len(st.frames) == 1 {
			// "atcall <select> before: ..." fires where the function may block in a select
			e.hookArgs = nil
			e.runHooks(st, fr, in, "<select>", "before")
		}
		e.selectOp(st, in)
	case *ssa.Send:
		e.abstracted["channel send (no effect modelled)"] = true
		e.cancelCheck(st, in, "send", in.Chan, in.Pos())
	case *ssa.SliceToArrayPointer:
		x := st.operand(in.X)
		set(in, Val{K: KAddr, T: "(elem " + x.Base + " " + x.Off + ")", Root: x.Root})
		e.unsupported("slice to array pointer")
	default:
		e.unsupported("instruction %T", instr)
		if v, ok := instr.(ssa.Value); ok {
			set(v, st.freshVal(v.Type(), "unk"))
		}
	}
}

func exprName(d *ssa.DebugRef) string {
	if id, ok := d.Expr.(interface{ End() token.Pos }); ok {
		_ = id
	}
	if v, ok := d.Object().(*types.Var); ok && v.IsField() {
		// the Sel identifier of a field selection: not a local variable (it would shadow a local of the same name)
		return ""
	}
	switch x := d.Expr.(type) {
	case interface{ String() string }:
		return x.String()
	}
	if obj := d.Object(); obj != nil {
		return obj.Name()
	}
	return ""
}

// ---------- slices ----------

func (e *Engine) sliceOp(st *State, in *ssa.Slice) {
	fr := st.top()
	x := st.operand(in.X)
	var lo, hi, mx string
	if in.Low != nil {
		lo = st.operand(in.Low).T
	} else {
		lo = "0"
	}
	switch x.K {
	case KSlice:
		if in.High != nil {
			hi = st.operand(in.High).T
		} else {
			hi = x.Len
		}
		if in.Max != nil {
			mx = st.operand(in.Max).T
		} else {
			mx = x.Cap
		}
		st.guard("slice", sAnd(sLe("0", lo), sLe(lo, hi), sLe(hi, mx), sLe(mx, x.Cap)), in.Pos())
		fr.regs[in] = Val{K: KSlice, Base: x.Base, Off: sAdd(x.Off, lo), Len: sSub(hi, lo), Cap: sSub(mx, lo), Ty: in.Type(), Root: x.Root}
	case KStr:
		if in.High != nil {
			hi = st.operand(in.High).T
		} else {
			hi = "(slen " + x.T + ")"
		}
		st.guard("slice", sAnd(sLe("0", lo), sLe(lo, hi), sLe(hi, "(slen "+x.T+")")), in.Pos())
		t := st.define("ss", "Str", "(substr_ "+x.T+" "+lo+" "+hi+")")
		fr.regs[in] = Val{K: KStr, T: t, Ty: in.Type()}
	case KAddr: // pointer to array
		n := int64(0)
		if a, ok := derefType(in.X.Type()).Underlying().(*types.Array); ok {
			n = a.Len()
		}
		if !x.NonNil {
			st.guard("nil", sNot(sEq(x.T, "null")), in.Pos())
		}
		if in.High != nil {
			hi = st.operand(in.High).T
		} else {
			hi = intLit(n)
		}
		if in.Max != nil {
			mx = st.operand(in.Max).T
		} else {
			mx = intLit(n)
		}
		st.guard("slice", sAnd(sLe("0", lo), sLe(lo, hi), sLe(hi, mx), sLe(mx, intLit(n))), in.Pos())
		fr.regs[in] = Val{K: KSlice, Base: x.T, Off: lo, Len: sSub(hi, lo), Cap: sSub(mx, lo), Ty: in.Type(), Root: x.Root, NonNil: true}
	default:
		e.unsupported("slice of kind %v", x.K)
		fr.regs[in] = st.freshVal(in.Type(), "sl")
	}
}

// ---------- arithmetic ----------

func (e *Engine) binop(st *State, op token.Token, x, y Val, xt, rt types.Type, pos token.Pos) Val {
	switch op {
	case token.EQL, token.NEQ:
		var eq string
		switch x.K {
		case KSlice: // only comparison with nil is legal
			eq = sEq(x.Base, "null")
			if y.K == KSlice && y.Base != "null" {
				eq = sEq(y.Base, "null")
			}
		case KFunc:
			xt, yt := e.funcID(x), e.funcID(y)
			eq = sEq(xt, yt)
		case KAddr:
			eq = sEq(x.T, y.T)
			if (x.NonNil && y.T == "null") || (y.NonNil && x.T == "null") {
				eq = "false"
			}
		default:
			eq = valEq(x, y)
		}
		if op == token.NEQ {
			eq = sNot(eq)
		}
		return Val{K: KBool, T: eq, Ty: rt}
	}
	if x.K == KStr {
		switch op {
		case token.ADD:
			return Val{K: KStr, T: st.define("cat", "Str", "(sconcat "+x.T+" "+y.T+")"), Ty: rt}
		case token.LSS, token.LEQ, token.GTR, token.GEQ:
			e.abstracted["string ordering (uninterpreted)"] = true
			return st.freshVal(rt, "strcmp")
		}
	}
	if x.K == KReal {
		switch op {
		case token.ADD:
			return Val{K: KReal, T: "(+ " + x.T + " " + y.T + ")", Ty: rt}
		case token.SUB:
			return Val{K: KReal, T: "(- " + x.T + " " + y.T + ")", Ty: rt}
		case token.MUL:
			return Val{K: KReal, T: "(* " + x.T + " " + y.T + ")", Ty: rt}
		case token.QUO:
			return Val{K: KReal, T: "(/ " + x.T + " " + y.T + ")", Ty: rt}
		case token.LSS:
			return Val{K: KBool, T: "(< " + x.T + " " + y.T + ")", Ty: rt}
		case token.LEQ:
			return Val{K: KBool, T: "(<= " + x.T + " " + y.T + ")", Ty: rt}
		case token.GTR:
			return Val{K: KBool, T: "(> " + x.T + " " + y.T + ")", Ty: rt}
		case token.GEQ:
			return Val{K: KBool, T: "(>= " + x.T + " " + y.T + ")", Ty: rt}
		}
	}
	if x.K == KBool {
		switch op {
		case token.AND:
			return Val{K: KBool, T: sAnd(x.T, y.T), Ty: rt}
		case token.OR:
			return Val{K: KBool, T: sOr(x.T, y.T), Ty: rt}
		}
	}
	a, b := x.T, y.T
	mk := func(t string) Val { return Val{K: KInt, T: t, Ty: rt} }
	mkw := func(t string) Val {
		w := wrapInt(t, rt, false)
		if w != t {
			w = st.define("w", "Int", w)
		}
		return Val{K: KInt, T: w, Ty: rt}
	}
	switch op {
	case token.LSS:
		return Val{K: KBool, T: sLt(a, b), Ty: rt}
	case token.LEQ:
		return Val{K: KBool, T: sLe(a, b), Ty: rt}
	case token.GTR:
		return Val{K: KBool, T: sLt(b, a), Ty: rt}
	case token.GEQ:
		return Val{K: KBool, T: sLe(b, a), Ty: rt}
	case token.ADD:
		return mkw(sAdd(a, b))
	case token.SUB:
		if _, _, w, signed, ok := intRange(rt); ok && w >= 64 && !signed {
			// unsigned 64-bit subtraction wraps exactly (the one 64-bit operation whose wrap-around is reachable with
			// ordinary values: a smaller minus a larger count)
			d := sSub(a, b)
			if _, isLit := litVal(d); !isLit || strings.HasPrefix(d, "(-") || strings.HasPrefix(d, "-") {
				return Val{K: KInt, T: st.define("w", "Int", "(ite (<= "+b+" "+a+") "+d+" (+ "+d+" 18446744073709551616))"), Ty: rt}
			}
		}
		return mkw(sSub(a, b))
	case token.MUL:
		return mkw(sMul(a, b))
	case token.QUO:
		st.guard("div", sNot(sEq(b, "0")), pos)
		return mkw("(godiv " + a + " " + b + ")")
	case token.REM:
		st.guard("div", sNot(sEq(b, "0")), pos)
		return mk("(gomod " + a + " " + b + ")")
	case token.SHL:
		if n, ok := litVal(b); ok && n >= 0 && n < 200 {
			return mkw(sMul(a, new2pow(n)))
		}
		return mkw("(* " + a + " (pow2 " + b + "))")
	case token.SHR:
		if n, ok := litVal(b); ok && n >= 0 && n < 200 {
			return mk("(div " + a + " " + new2pow(n) + ")")
		}
		return mk("(div " + a + " (pow2 " + b + "))")
	case token.AND:
		if n, ok := litVal(b); ok && n >= 0 && (n&(n+1)) == 0 {
			return mk("(mod " + a + " " + intLit(n+1) + ")")
		}
		if n, ok := litVal(a); ok && n >= 0 && (n&(n+1)) == 0 {
			return mk("(mod " + b + " " + intLit(n+1) + ")")
		}
		return e.bitop(st, "and", a, b, rt)
	case token.OR:
		return e.bitop(st, "or", a, b, rt)
	case token.XOR:
		return e.bitop(st, "xor", a, b, rt)
	case token.AND_NOT:
		e.abstracted["&^ (uninterpreted)"] = true
		return st.freshVal(rt, "andnot")
	}
	e.unsupported("binop %v", op)
	return st.freshVal(rt, "binop")
}

func new2pow(n int64) string {
	return newBig(0).Lsh(newBig(1), uint(n)).String()
}

func (e *Engine) bitop(st *State, op, a, b string, rt types.Type) Val {
	_, _, w, signed, ok := intRange(rt)
	fn := "bit" + op
	if ok && w == 8 && !signed {
		fn = op + "8"
	}
	t := st.define("bo", "Int", "("+fn+" "+a+" "+b+")")
	st.assume(rangeAssume(t, rt))
	return Val{K: KInt, T: t, Ty: rt}
}

func (e *Engine) convert(st *State, x Val, from, to types.Type, pos token.Pos) Val {
	fk, tk := kindOf(from), kindOf(to)
	switch {
	case fk == KInt && tk == KInt:
		flo, fhi, _, _, ok1 := intRange(from)
		tlo, thi, _, _, ok2 := intRange(to)
		if ok1 && ok2 && flo.Cmp(tlo) >= 0 && fhi.Cmp(thi) <= 0 {
			return Val{K: KInt, T: x.T, Ty: to}
		}
		w := wrapInt(x.T, to, true)
		if w != x.T {
			w = st.define("cv", "Int", w)
		}
		return Val{K: KInt, T: w, Ty: to}
	case fk == KInt && tk == KReal:
		return Val{K: KReal, T: "(to_real " + x.T + ")", Ty: to}
	case fk == KReal && tk == KReal:
		return Val{K: KReal, T: x.T, Ty: to}
	case fk == KReal && tk == KInt:
		e.abstracted["float to int conversion (truncation idealised as floor for non-negative)"] = true
		t := st.define("f2i", "Int", "(to_int "+x.T+")")
		return Val{K: KInt, T: t, Ty: to}
	case fk == KSlice && tk == KStr:
		if x.Len == "0" {
			return Val{K: KStr, T: "str_empty", Ty: to}
		}
		t := st.define("s", "Str", "(str_of "+st.heap("Hy")+" "+x.Base+" "+x.Off+" "+x.Len+")")
		return Val{K: KStr, T: t, Ty: to}
	case fk == KStr && tk == KSlice:
		root := st.newRoot()
		addr := "(ref " + root + " pnil)"
		st.private[root] = true
		q := e.fresh("qi")
		h := st.heap("Hy")
		st.assume("(forall ((" + q + " Int)) (! (=> (and (<= 0 " + q + ") (< " + q + " (slen " + x.T + "))) (= (select " + h + " (elem " + addr + " " + q + ")) (sat " + x.T + " " + q + "))) :pattern ((select " + h + " (elem " + addr + " " + q + ")))))")
		// the bytes of the new slice spell the string
		st.assume("(= (str_of " + h + " " + addr + " 0 (slen " + x.T + ")) " + x.T + ")")
		return Val{K: KSlice, Base: addr, Off: "0", Len: "(slen " + x.T + ")", Cap: "(slen " + x.T + ")", Ty: to, Root: root, NonNil: true}
	case fk == KInt && tk == KStr:
		return Val{K: KStr, T: "(str_of_int " + x.T + ")", Ty: to}
	case fk == KAddr && tk == KAddr:
		return Val{K: KAddr, T: x.T, Ty: to, Root: x.Root, NonNil: x.NonNil}
	case fk == KStr && tk == KStr:
		return Val{K: KStr, T: x.T, Ty: to}
	case fk == KSlice && tk == KSlice:
		x.Ty = to
		return x
	}
	e.unsupported("convert %v -> %v", from, to)
	return st.freshVal(to, "conv")
}


// guardedWrite: a WRITE to a field under a guardedby clause (a store to the field, an update of the map it holds)
// needs the lock held exclusively - a read hold is not enough (other readers may be inside their sections).
func (e *Engine) guardedWrite(st *State, fa *ssa.FieldAddr, pos token.Pos) {
	if len(e.guards) == 0 {
		return
	}
	n := namedOf(fa.X.Type())
	if n == nil || n.Obj().Pkg() == nil {
		return
	}
	stt, ok := n.Underlying().(*types.Struct)
	if !ok {
		return
	}
	key := n.Obj().Pkg().Path() + "." + n.Obj().Name() + "." + stt.Field(fa.Field).Name()
	g, ok := e.guards[key]
	if !ok {
		return
	}
	x := st.operand(fa.X)
	if x.Root != "" {
		return // object under construction by this activation
	}
	m := "(fld " + x.T + " " + intLit(int64(g.mutexIdx)) + ")"
	st.addCheck(&Check{Name: fmt.Sprintf("%s.ghost.guardw[%s.%s]@%s", e.curFunc, n.Obj().Name(), stt.Field(fa.Field).Name(), shortPos(posStr(e, pos))), Kind: "ghost.guard",
		Goal: "(select " + st.heap("G$held") + " " + m + ")", Pos: posStr(e, pos), Tags: g.tags, Func: e.curFunc, Clause: "guardedby " + g.typ + ": a write needs the lock held exclusively"})
}

// ---------- cancellable: blocking channel operations must be interruptible by the context ----------

func isDoneOf(v ssa.Value, ctxName string, fn *ssa.Function) bool {
	c, ok := v.(*ssa.Call)
	if !ok || !c.Call.IsInvoke() || c.Call.Method.Name() != "Done" {
		return false
	}
	x := c.Call.Value
	for i := 0; i < 4; i++ {
		switch y := x.(type) {
		case *ssa.ChangeInterface:
			x = y.X
			continue
		case *ssa.MakeInterface:
			x = y.X
			continue
		}
		break
	}
	if p, ok := x.(*ssa.Parameter); ok && p.Name() == ctxName {
		return true
	}
	if fv, ok := x.(*ssa.FreeVar); ok && fv.Name() == ctxName {
		return true
	}
	// a closure reads a captured variable through a pointer (go/ssa captures by reference): *ctxName, provided the
	// enclosing function assigns the variable exactly once (so every read sees the same context)
	if u, ok := x.(*ssa.UnOp); ok && u.Op == token.MUL {
		if fv, ok := u.X.(*ssa.FreeVar); ok && fv.Name() == ctxName && fn.Parent() != nil {
			stores := 0
			var walk func(f *ssa.Function)
			walk = func(f *ssa.Function) {
				for _, b := range f.Blocks {
					for _, in := range b.Instrs {
						if st, ok := in.(*ssa.Store); ok {
							switch a := st.Addr.(type) {
							case *ssa.Alloc:
								if a.Comment == ctxName {
									stores++
								}
							case *ssa.FreeVar:
								if a.Name() == ctxName {
									stores++
								}
							}
						}
					}
				}
				for _, a := range f.AnonFuncs {
					walk(a)
				}
			}
			walk(fn.Parent())
			return stores == 1
		}
	}
	return false
}

func (e *Engine) cancelCheck(st *State, in ssa.Instruction, what string, ch ssa.Value, pos token.Pos) {
	if len(st.frames) != 1 {
		return
	}
	fc := st.frames[0].contract
	if fc == nil || fc.Cancellable == "" {
		return
	}
	if isDoneOf(ch, fc.Cancellable, st.frames[0].fn) {
		return
	}
	st.addCheck(&Check{Name: fmt.Sprintf("%s.cancellable.%s@%s", e.curFunc, what, shortPos(posStr(e, pos))), Kind: "cancellable", Goal: "false", Pos: posStr(e, pos), Tags: fc.CancelTags, Func: e.curFunc,
		Clause: "cancellable " + fc.Cancellable + ": a blocking channel " + what + " outside a select that also receives from " + fc.Cancellable + ".Done()"})
}

func (e *Engine) cancelCheckSelect(st *State, in *ssa.Select) {
	if len(st.frames) != 1 || !in.Blocking {
		return
	}
	fc := st.frames[0].contract
	if fc == nil || fc.Cancellable == "" {
		return
	}
	for _, s := range in.States {
		if s.Dir == types.RecvOnly && isDoneOf(s.Chan, fc.Cancellable, st.frames[0].fn) {
			st.addCheck(&Check{Name: fmt.Sprintf("%s.cancellable.select@%s", e.curFunc, shortPos(posStr(e, in.Pos()))), Kind: "cancellable", Goal: "true", Pos: posStr(e, in.Pos()), Tags: fc.CancelTags, Func: e.curFunc,
				Clause: "cancellable " + fc.Cancellable + ": this blocking select has an arm receiving from " + fc.Cancellable + ".Done()"})
			return
		}
	}
	st.addCheck(&Check{Name: fmt.Sprintf("%s.cancellable.select@%s", e.curFunc, shortPos(posStr(e, in.Pos()))), Kind: "cancellable", Goal: "false", Pos: posStr(e, in.Pos()), Tags: fc.CancelTags, Func: e.curFunc,
		Clause: "cancellable " + fc.Cancellable + ": a blocking select without an arm receiving from " + fc.Cancellable + ".Done()"})
}
