package main

import (
	"fmt"
	"go/token"
	"go/types"
	"sort"
	"strings"

	"golang.org/x/tools/go/ssa"
)

type loopHdr struct {
	b      *ssa.BasicBlock
	ord    int
	blocks map[*ssa.BasicBlock]bool
	pos    token.Pos
}

type loopInfo struct {
	headers map[*ssa.BasicBlock]*loopHdr
	list    []*loopHdr
}

func (li *loopInfo) isBackEdge(from, to *ssa.BasicBlock) bool {
	return from != nil && to.Dominates(from)
}

func (e *Engine) loops(fn *ssa.Function) *loopInfo {
	if li, ok := e.loopCache[fn]; ok {
		return li
	}
	li := &loopInfo{headers: map[*ssa.BasicBlock]*loopHdr{}}
	for _, b := range fn.Blocks {
		for _, s := range b.Succs {
			if s.Dominates(b) { // back edge b -> s
				h := li.headers[s]
				if h == nil {
					h = &loopHdr{b: s, blocks: map[*ssa.BasicBlock]bool{s: true}}
					li.headers[s] = h
					li.list = append(li.list, h)
				}
				// natural loop: all blocks that reach b without passing s
				stack := []*ssa.BasicBlock{b}
				for len(stack) > 0 {
					x := stack[len(stack)-1]
					stack = stack[:len(stack)-1]
					if h.blocks[x] {
						continue
					}
					h.blocks[x] = true
					stack = append(stack, x.Preds...)
				}
			}
		}
	}
	// position of a loop: smallest valid position of an instruction in the header or its blocks' "for" token.
	for _, h := range li.list {
		h.pos = loopPos(h)
	}
	sort.SliceStable(li.list, func(i, j int) bool {
		if li.list[i].pos != li.list[j].pos {
			return li.list[i].pos < li.list[j].pos
		}
		return li.list[i].b.Index < li.list[j].b.Index
	})
	for i, h := range li.list {
		h.ord = i + 1
	}
	e.loopCache[fn] = li
	return li
}

func loopPos(h *loopHdr) token.Pos {
	best := token.NoPos
	for b := range h.blocks {
		for _, in := range b.Instrs {
			p := in.Pos()
			if _, ok := in.(*ssa.DebugRef); ok {
				continue
			}
			if p.IsValid() && (best == token.NoPos || p < best) {
				best = p
			}
		}
	}
	return best
}

func (e *Engine) loopSpec(fr *Frame, h *loopHdr) *LoopSpec {
	if fr.contract == nil {
		return nil
	}
	return fr.contract.Loops[h.ord]
}

// loopInvariants asserts (init/preserve) or assumes the invariants of a loop at its header.
func (e *Engine) loopInvariants(st *State, fr *Frame, h *loopHdr, spec *LoopSpec, mode string) {
	env := e.frameEnv(st, fr)
	for _, ld := range spec.Lets {
		env.lets[ld.Name] = ld.Expr
	}
	for _, inv := range spec.Invs {
		t, err := e.evalBool(st, env, inv.Expr)
		if err != nil {
			e.unsupported("loop %d invariant %d of %s: %v", h.ord, inv.Ord, fr.fn.String(), err)
			continue
		}
		if mode == "assume" {
			st.assume(t)
			continue
		}
		st.addCheck(&Check{
			Name: fmt.Sprintf("%s.loop%d.%s.%d", keyOf(fr.fn), h.ord, mode, inv.Ord), Kind: "loop." + mode, Goal: t,
			Pos: inv.Where, Tags: inv.Tags, Func: keyOf(fr.fn), Clause: inv.Text, Bounded: st.boundedNow()})
		st.assume(t)
	}
}

// havocLoop forgets everything the loop may change: header phis and heap locations.
func (e *Engine) havocLoop(st *State, fr *Frame, h *loopHdr, spec *LoopSpec) {
	for _, in := range h.b.Instrs {
		p, ok := in.(*ssa.Phi)
		if !ok {
			break
		}
		v := st.freshVal(p.Type(), "phi_"+sanitize(p.Comment))
		// keep private-root provenance if every incoming value agrees (pointer into the same private object)
		old := fr.regs[p]
		if old.Root != "" {
			v.Root = ""
			st.escapeRoot(old.Root)
		}
		fr.regs[p] = v
		if p.Comment != "" {
			fr.names[p.Comment] = v
			delete(fr.nameAddr, p.Comment)
		}
	}
	// map iterators whose Next is inside the loop: visited set becomes arbitrary
	for b := range h.blocks {
		for _, in := range b.Instrs {
			if nx, ok := in.(*ssa.Next); ok {
				if it := st.iters[nx.Iter]; it != nil && it.visited != "" {
					mt := it.m.Ty
					_ = mt
					srt := "(Array " + sortOfKind(it.keyKind) + " Bool)"
					it.visited = st.declare("visited", srt)
					// implicit invariant kept by the engine: until an iteration has begun nothing is visited
					it.started = st.declare("started", "Bool")
					st.assume("(or " + it.started + " (forall ((k " + sortOfKind(it.keyKind) + ")) (! (not (select " + it.visited + " k)) :pattern ((select " + it.visited + " k)))))")
				}
			}
		}
	}
	// snap variables that an atcall hook inside the loop (re)records: after the cut their value is that of some
	// later iteration - arbitrary; a snap that was defined stays defined, one that was not may have become defined
	if fr.contract != nil && len(st.frames) == 1 {
		for _, hk := range fr.contract.Hooks {
			if hk.Kind != "snap" || !e.hookInLoop(fr, hk, h) {
				continue
			}
			old, had := fr.names[hk.Name]
			if !had {
				env0 := e.frameEnv(st, fr)
				v, err := e.evalC(st, env0, hk.Clause.Expr)
				if err != nil || v.Ty == nil {
					// shape unknown before the first recording: usable only if an invariant never mentions it
					continue
				}
				old = v
			}
			if old.Ty == nil {
				switch old.K {
				case KInt:
					old.Ty = types.Typ[types.Int]
				case KBool:
					old.Ty = types.Typ[types.Bool]
				case KStr:
					old.Ty = types.Typ[types.String]
				default:
					continue
				}
			}
			nv := st.freshVal(old.Ty, "snap_"+sanitize(hk.Name))
			fr.names[hk.Name] = nv
			delete(fr.nameAddr, hk.Name)
			if fr.snaps == nil {
				fr.snaps = map[string]bool{}
			}
			fr.snaps[hk.Name] = true
			if fr.nameDef == nil {
				fr.nameDef = map[string]string{}
			}
			if had {
				if d, cond := fr.nameDef[hk.Name]; cond {
					nd := st.declare("sdef", "Bool")
					st.assume(sImp(d, nd))
					fr.nameDef[hk.Name] = nd
				}
			} else {
				fr.nameDef[hk.Name] = st.declare("sdef", "Bool")
			}
		}
	}
	// heap
	env := e.frameEnv(st, fr)
	if len(spec.Modifies) > 0 {
		e.havocDesignators(st, env, spec.Modifies, "loop")
		st.bumpWatermark()
		// the modifies clause is an obligation of the loop body: every write inside the body (stores, map updates,
		// frames of callees) must fall into it or into an object allocated after this point
		if ds, all, err := e.evalDesignators(st, env, spec.Modifies); err != nil {
			e.unsupported("modifies of loop %d of %s: %v", h.ord, fr.fn.String(), err)
		} else {
			lac := &assignsCtx{all: all, byHeap: map[string][]desig{}, enabled: true, wm: st.wm(), loop: h.ord}
			for _, d := range ds {
				lac.byHeap[d.heap] = append(lac.byHeap[d.heap], d)
			}
			if fr.loopAC == nil {
				fr.loopAC = map[*loopHdr]*assignsCtx{}
			}
			fr.loopAC[h] = lac
		}
		return
	}
	// default frame: a syntactic over-approximation of what the loop writes
	all, roots := e.loopWrites(st, fr, h)
	if all {
		// everything the program can write; ghost state only if the loop can reach an operation on it
		ghost := false
		for b := range h.blocks {
			for _, in := range b.Instrs {
				switch x := in.(type) {
				case *ssa.Call:
					ghost = ghost || e.callMayTouchGhost(&x.Call, map[*ssa.Function]bool{})
				case *ssa.Defer:
					ghost = true
				case *ssa.Go:
					ghost = ghost || e.callMayTouchGhost(&x.Call, map[*ssa.Function]bool{})
				}
			}
		}
		e.havocAllG(st, ghost)
		return
	}
	e.havocRoots(st, roots)
	st.bumpWatermark()
}

// storeRoot follows an address back to the allocation it is derived from (nil if unknown).
func storeRoot(v ssa.Value) ssa.Value {
	for i := 0; i < 20; i++ {
		switch x := v.(type) {
		case *ssa.FieldAddr:
			v = x.X
		case *ssa.IndexAddr:
			v = x.X
		case *ssa.Slice:
			v = x.X
		case *ssa.Alloc, *ssa.MakeSlice:
			return v
		case *ssa.Phi:
			return nil
		default:
			return nil
		}
	}
	return nil
}

// loopWrites: which memory can the loop body change? Stores into objects allocated inside the body are invisible
// at the header; stores into objects allocated before the loop by this activation change those objects only;
// anything else (stores through unknown pointers, map updates, calls with effects) changes everything.
func (e *Engine) loopWrites(st *State, fr *Frame, h *loopHdr) (all bool, roots []string) {
	seen := map[string]bool{}
	for b := range h.blocks {
		for _, in := range b.Instrs {
			switch x := in.(type) {
			case *ssa.Store:
				r := storeRoot(x.Addr)
				if r == nil {
					return true, nil
				}
				if ri, ok := r.(ssa.Instruction); ok && h.blocks[ri.Block()] {
					continue // allocated inside the loop body
				}
				v, ok := fr.regs[r]
				if !ok {
					return true, nil
				}
				t := v.T
				if v.K == KSlice {
					t = v.Base
				}
				rt := "(root " + t + ")"
				if !seen[rt] {
					seen[rt] = true
					roots = append(roots, rt)
				}
			case *ssa.MapUpdate:
				return true, nil
			case *ssa.Call:
				if b, ok := x.Call.Value.(*ssa.Builtin); ok && !x.Call.IsInvoke() {
					switch b.Name() {
					case "len", "cap", "min", "max", "append":
						continue
					}
					return true, nil
				}
				if !e.callIsPure(&x.Call) {
					return true, nil
				}
			case *ssa.Defer, *ssa.Go, *ssa.Send:
				return true, nil
			}
		}
	}
	return false, roots
}

func (st *State) escapeRoot(r string) { delete(st.private, r) }

// hookInLoop: does the hook fire at some call inside the loop?
func (e *Engine) hookInLoop(fr *Frame, hk *CallHook, h *loopHdr) bool {
	for b := range h.blocks {
		for _, in := range b.Instrs {
			var cc *ssa.CallCommon
			switch x := in.(type) {
			case *ssa.Call:
				cc = &x.Call
			case *ssa.Go:
				cc = &x.Call
			default:
				continue
			}
			var key string
			if cc.IsInvoke() {
				key = methodKey(cc.Value.Type(), cc.Method.Name())
			} else if f := cc.StaticCallee(); f != nil {
				key = keyOf(f)
			} else if _, isB := cc.Value.(*ssa.Builtin); isB {
				continue
			} else {
				key = "<dynamic func value>"
			}
			if _, isGo := in.(*ssa.Go); isGo {
				key = "go " + key
			}
			if hk.Callee != "*" && !strings.Contains(key, hk.Callee) {
				continue
			}
			if hk.Ord > 0 && e.callOrdinal(fr.fn, in, hk.Callee) != hk.Ord {
				continue
			}
			return true
		}
	}
	return false
}

// defaultLoopModifies: a syntactic over-approximation of what the loop writes.
func (e *Engine) defaultLoopModifies(fr *Frame, h *loopHdr) []string {
	writes := false
	for b := range h.blocks {
		for _, in := range b.Instrs {
			switch x := in.(type) {
			case *ssa.Store, *ssa.MapUpdate:
				writes = true
			case *ssa.Call:
				if !e.callIsPure(&x.Call) {
					writes = true
				}
			case *ssa.Defer, *ssa.Go:
				writes = true
			}
		}
	}
	if !writes {
		return nil
	}
	return []string{"*"}
}
