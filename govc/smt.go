package main

import (
	"sync"
	"bytes"
	"context"
	"fmt"
	"os"
	"os/exec"
	"strings"
	"time"
)

// ---------- term helpers with light constant folding ----------

func sAnd(xs ...string) string {
	var out []string
	for _, x := range xs {
		if x == "true" || x == "" {
			continue
		}
		if x == "false" {
			return "false"
		}
		out = append(out, x)
	}
	if len(out) == 0 {
		return "true"
	}
	if len(out) == 1 {
		return out[0]
	}
	return "(and " + strings.Join(out, " ") + ")"
}

func sOr(xs ...string) string {
	var out []string
	for _, x := range xs {
		if x == "false" || x == "" {
			continue
		}
		if x == "true" {
			return "true"
		}
		out = append(out, x)
	}
	if len(out) == 0 {
		return "false"
	}
	if len(out) == 1 {
		return out[0]
	}
	return "(or " + strings.Join(out, " ") + ")"
}

func sNot(x string) string {
	if x == "true" {
		return "false"
	}
	if x == "false" {
		return "true"
	}
	if strings.HasPrefix(x, "(not ") && strings.HasSuffix(x, ")") && balanced(x[5:len(x)-1]) {
		return x[5 : len(x)-1]
	}
	return "(not " + x + ")"
}

func balanced(s string) bool {
	d := 0
	for i := 0; i < len(s); i++ {
		if s[i] == '(' {
			d++
		}
		if s[i] == ')' {
			d--
			if d < 0 {
				return false
			}
		}
		if d == 0 && s[i] == ' ' {
			return false
		}
	}
	return d == 0
}

func sImp(a, b string) string {
	if a == "true" {
		return b
	}
	if a == "false" || b == "true" {
		return "true"
	}
	if b == "false" {
		return sNot(a)
	}
	return "(=> " + a + " " + b + ")"
}

func sEq(a, b string) string {
	if a == b {
		return "true"
	}
	if isIntLit(a) && isIntLit(b) {
		return "false"
	}
	return "(= " + a + " " + b + ")"
}

func sIte(c, a, b string) string {
	if c == "true" {
		return a
	}
	if c == "false" {
		return b
	}
	if a == b {
		return a
	}
	return "(ite " + c + " " + a + " " + b + ")"
}

func isIntLit(s string) bool {
	if s == "" {
		return false
	}
	if strings.HasPrefix(s, "(- ") && strings.HasSuffix(s, ")") {
		s = s[3 : len(s)-1]
	}
	for i := 0; i < len(s); i++ {
		if s[i] < '0' || s[i] > '9' {
			return false
		}
	}
	return true
}

func intLit(n int64) string {
	if n < 0 {
		return fmt.Sprintf("(- %d)", -n)
	}
	return fmt.Sprintf("%d", n)
}

func litVal(s string) (int64, bool) {
	neg := false
	if strings.HasPrefix(s, "(- ") && strings.HasSuffix(s, ")") {
		s = s[3 : len(s)-1]
		neg = true
	}
	if s == "" || len(s) > 18 {
		return 0, false
	}
	var n int64
	for i := 0; i < len(s); i++ {
		if s[i] < '0' || s[i] > '9' {
			return 0, false
		}
		n = n*10 + int64(s[i]-'0')
	}
	if neg {
		n = -n
	}
	return n, true
}

func sAdd(a, b string) string {
	x, ok1 := litVal(a)
	y, ok2 := litVal(b)
	if ok1 && ok2 {
		return intLit(x + y)
	}
	if ok1 && x == 0 {
		return b
	}
	if ok2 && y == 0 {
		return a
	}
	return "(+ " + a + " " + b + ")"
}

func sSub(a, b string) string {
	x, ok1 := litVal(a)
	y, ok2 := litVal(b)
	if ok1 && ok2 {
		return intLit(x - y)
	}
	if ok2 && y == 0 {
		return a
	}
	return "(- " + a + " " + b + ")"
}

func sMul(a, b string) string {
	x, ok1 := litVal(a)
	y, ok2 := litVal(b)
	if ok1 && ok2 && x < 1<<30 && y < 1<<30 && x > -(1<<30) && y > -(1<<30) {
		return intLit(x * y)
	}
	return "(* " + a + " " + b + ")"
}

// sIdx: index arithmetic off+i of a slice element. A symbolic offset is hidden behind the function idx (defined by
// an axiom) so that quantifier patterns over slice elements contain no arithmetic operator.
func sIdx(off, i string) string {
	if o, ok := litVal(off); ok && o == 0 {
		return i
	}
	if _, ok := litVal(off); ok {
		return sAdd(off, i) // a literal offset normalises the same way on both sides of a match
	}
	if n, ok := litVal(i); ok && n == 0 {
		return off
	}
	return "(idx " + off + " " + i + ")"
}

func elemAt(base, off, i string) string { return "(elem " + base + " " + sIdx(off, i) + ")" }

func sLe(a, b string) string {
	x, ok1 := litVal(a)
	y, ok2 := litVal(b)
	if ok1 && ok2 {
		if x <= y {
			return "true"
		}
		return "false"
	}
	return "(<= " + a + " " + b + ")"
}

func sLt(a, b string) string {
	x, ok1 := litVal(a)
	y, ok2 := litVal(b)
	if ok1 && ok2 {
		if x < y {
			return "true"
		}
		return "false"
	}
	return "(< " + a + " " + b + ")"
}

// ---------- preamble ----------

const smtPreamble = `(set-option :produce-models true)
(set-logic ALL)
(declare-sort Str 0)
(declare-datatypes ((Path 0)) (((pnil) (pfld (pfb Path) (pfi Int)) (pelem (peb Path) (pei Int)))))
(declare-datatypes ((Addr 0)) (((null) (ref (root Int) (path Path)))))
(define-fun fld ((a Addr) (k Int)) Addr (ref (root a) (pfld (path a) k)))
(define-fun elem ((a Addr) (i Int)) Addr (ref (root a) (pelem (path a) i)))
(declare-datatypes ((Iface 0)) (((inil) (ibox (itag Int) (ipay Int) (iaddr Addr) (istr Str)))))
STRGROUP(define-fun godiv ((a Int) (b Int)) Int (ite (>= a 0) (ite (> b 0) (div a b) (- (div a (- b)))) (ite (> b 0) (- (div (- a) b)) (div (- a) (- b)))))
(define-fun gomod ((a Int) (b Int)) Int (- a (* b (godiv a b))))
(declare-fun xor8 (Int Int) Int)
(declare-fun and8 (Int Int) Int)
(declare-fun or8 (Int Int) Int)
(declare-fun bitand (Int Int) Int)
(declare-fun bitor (Int Int) Int)
(declare-fun bitxor (Int Int) Int)
(declare-fun idx (Int Int) Int)
(declare-fun akey2 (Int Int) Int)
(assert (forall ((a Int) (b Int) (c Int) (d Int)) (! (=> (= (akey2 a b) (akey2 c d)) (and (= a c) (= b d))) :pattern ((akey2 a b) (akey2 c d)))))
(assert (forall ((o Int) (i Int)) (! (= (idx o i) (+ o i)) :pattern ((idx o i)))))
(declare-fun shl (Int Int) Int)
(declare-fun shr (Int Int) Int)
(define-fun pow2 ((k Int)) Int POW2TABLE)
(declare-fun dyntype (Addr) Int)
(declare-fun implements (Int Int) Bool)
(declare-fun unbox (Int Int) Int)
(declare-fun unboxa (Int Int) Addr)
(declare-fun unboxs (Int Int) Str)
(declare-fun unboxf (Int Int) Iface)
(declare-fun unboxb (Int Int) Bool)
(declare-fun unboxr (Int Int) Real)
(declare-fun int2real (Int) Real)
`

func pow2Table() string {
	// exact table for 0..128, 0 elsewhere
	var sb strings.Builder
	v := newBig(1)
	closeP := 0
	for k := 0; k <= 128; k++ {
		fmt.Fprintf(&sb, "(ite (= k %d) %s ", k, v.String())
		closeP++
		v = v.Lsh(v, 1)
	}
	sb.WriteString("0")
	sb.WriteString(strings.Repeat(")", closeP))
	return sb.String()
}

const strGroup = `(declare-fun slen (Str) Int)
(declare-fun sat (Str Int) Int)
(declare-const str_empty Str)
(assert (= (slen str_empty) 0))
(assert (forall ((s Str)) (! (>= (slen s) 0) :pattern ((slen s)))))
(assert (forall ((s Str)) (! (=> (= (slen s) 0) (= s str_empty)) :pattern ((slen s)))))
(declare-fun str_of ((Array Addr Int) Addr Int Int) Str)
(assert (forall ((h (Array Addr Int)) (b Addr) (o Int) (n Int)) (! (= (slen (str_of h b o n)) (ite (>= n 0) n 0)) :pattern ((str_of h b o n)))))
(assert (forall ((h (Array Addr Int)) (b Addr) (o Int) (n Int) (i Int)) (! (=> (and (<= 0 i) (< i n)) (= (sat (str_of h b o n) i) (select h (elem b (+ o i))))) :pattern ((sat (str_of h b o n) i)))))
(declare-fun sconcat (Str Str) Str)
(assert (forall ((a Str) (b Str)) (! (= (slen (sconcat a b)) (+ (slen a) (slen b))) :pattern ((sconcat a b)))))
(declare-fun str_of_int (Int) Str)
`

// preambleFor returns the preamble; the quantified string axioms are included only when the body uses strings.
func preambleFor(body string) string {
	p := strings.Replace(smtPreamble, "POW2TABLE", pow2Table(), 1)
	sg := "(declare-fun slen (Str) Int)\n(declare-fun sat (Str Int) Int)\n(declare-const str_empty Str)\n(declare-fun str_of ((Array Addr Int) Addr Int Int) Str)\n(declare-fun sconcat (Str Str) Str)\n(declare-fun str_of_int (Int) Str)\n"
	if strings.Contains(body, "slen") || strings.Contains(body, "str_of") || strings.Contains(body, "sconcat") || strings.Contains(body, "strlit_") || strings.Contains(body, "(sat ") {
		sg = strGroup
	}
	p = strings.Replace(p, "STRGROUP", sg, 1)
	if strings.Contains(body, "xor8") || strings.Contains(body, "and8") || strings.Contains(body, "or8") {
		p += bitAxioms()
	}
	return p
}

// ---------- solver running ----------

type SolverResult struct {
	Answers []string // one per check-sat: sat/unsat/unknown/timeout/error
	Raw     string
	Solver  string
	Secs    float64
}

var solverCmds = map[string][]string{
	"z3-new": {"z3-new", "-in", "-smt2"},
	"z3":     {"z3", "-in", "-smt2"},
	"cvc5":   {"cvc5", "--lang=smt2", "--incremental"},
}

// runSolver runs script on one solver; perCheckMs is the soft per-check timeout, hardSecs is wall clock kill.
func runSolver(ctx context.Context, solver, script string, perCheckMs int, hardSecs int) SolverResult {
	args := append([]string{}, solverCmds[solver]...)
	switch solver {
	case "z3", "z3-new":
		// proofs rely on E-matching with explicit patterns; model-based instantiation only burns time on the
		// failing/unknown cases (candidate models come from the relaxed query instead)
		args = append(args, fmt.Sprintf("-t:%d", perCheckMs), "smt.mbqi=false")
	case "cvc5":
		args = append(args, fmt.Sprintf("--tlimit-per=%d", perCheckMs))
	}
	cctx, cancel := context.WithTimeout(ctx, time.Duration(hardSecs)*time.Second)
	defer cancel()
	cmd := exec.CommandContext(cctx, args[0], args[1:]...)
	cmd.Stdin = strings.NewReader(script)
	var out bytes.Buffer
	cmd.Stdout = &out
	cmd.Stderr = &out
	t0 := time.Now()
	_ = cmd.Run()
	res := SolverResult{Raw: out.String(), Solver: solver, Secs: time.Since(t0).Seconds()}
	for _, l := range strings.Split(res.Raw, "\n") {
		l = strings.TrimSpace(l)
		switch l {
		case "sat", "unsat", "unknown", "timeout":
			res.Answers = append(res.Answers, l)
		}
		if strings.HasPrefix(l, "(error") && !strings.Contains(l, "model is not available") && !strings.Contains(l, "Cannot get model") && !strings.Contains(l, "cannot get model") && !strings.Contains(l, "Cannot get domain elements") {
			solverErrMu.Lock()
			if len(solverErrs) < 20 {
				solverErrs = append(solverErrs, solver+": "+l)
			}
			solverErrMu.Unlock()
		}
	}
	return res
}

// malformed scripts are engine defects: they are collected and shown by "govc verify"
var (
	solverErrMu sync.Mutex
	solverErrs  []string
)

func debugDump(name, script string) {
	if d := os.Getenv("GOVC_DUMP"); d != "" {
		os.MkdirAll(d, 0o755)
		os.WriteFile(d+"/"+sanitize(name)+".smt2", []byte(script), 0o644)
	}
}

func sanitize(s string) string {
	var sb strings.Builder
	for _, c := range s {
		if (c >= 'a' && c <= 'z') || (c >= 'A' && c <= 'Z') || (c >= '0' && c <= '9') || c == '.' || c == '-' || c == '_' {
			sb.WriteRune(c)
		} else {
			sb.WriteByte('_')
		}
	}
	return sb.String()
}
