package main

// Contract files: comment-only Go files (//go:build verif) in /repo and *.spec files in /verif/speclib.
// Every contract line starts with "//@".

import (
	"fmt"
	"go/ast"
	"go/parser"
	"go/token"
	"os"
	"regexp"
	"strconv"
	"strings"
)

type Clause struct {
	Kind  string // requires, ensures, invariant, assert, assume
	Tags  []string
	Text  string
	Expr  *CExpr
	Where string // file:line
	Ord   int    // ordinal among clauses of the same kind in the block (1-based)
}

type LoopSpec struct {
	Ord      int
	Invs     []*Clause
	Modifies []string // designator texts
	Unroll   int
	Lets     []LetDef
}

type LetDef struct {
	Name string
	Expr *CExpr
}

type CallStep struct { // lemma step: calls a, b := F(args)
	Results []string
	Callee  string
	Args    []*CExpr
	Where   string
}

type LemmaStep struct {
	Call   *CallStep
	Assert *Clause
	Assume *Clause
}

// CallHook: a ghost action attached to the k-th call (source order) of a callee inside the function under contract.
type CallHook struct {
	Callee string // substring of the callee key ("*" = every call)
	Ord    int    // 0 = every matching call
	When   string // before | after
	Kind   string // snap | assert
	Name   string // snap variable
	Clause *Clause
	Where  string
	// ExecOnly ("run:<callee>"): the hook fires only where the call is executed (a direct call, or a deferred call when
	// the defers run), not where a defer or go statement schedules it
	ExecOnly bool
}

type FuncContract struct {
	DynAssigns []string // assumed frame of calls through func values inside this function (listed as an assumption)
	HasDyn     bool
	CallsOnly  []string // closed-world frame: the only callees the function may call (substrings of callee keys)
	NeverReads  []string // "T.f": the function (and callees inlined into it) never takes the address of / reads field f of a T
	NeverTags   []string
	Cancellable string  // name of a context parameter: every blocking channel operation is an arm of a select that also receives from <ctx>.Done()
	CancelTags  []string
	CallsTags  []string
	Hooks      []*CallHook
	File       string
	PkgPath    string // package the contract file belongs to ("" for speclib)
	Sig        string // raw signature text
	Recv       string // receiver name ("" if none)
	RecvType   string // receiver type text as written, e.g. "*sync.RWMutex"
	Name       string // function name, may contain $N for closures
	Qual       string // package qualifier as written for plain functions (speclib), e.g. "net"
	Params     []string
	Results    []string
	Requires   []*Clause
	Ensures    []*Clause
	Assigns    []string
	HasAssigns bool
	Loops      map[int]*LoopSpec
	Lets       []LetDef
	Checks     map[string]bool
	Trusted    bool
	Inline     bool
	Pure       bool // no heap effects (speclib)
	NoInline   bool
	Implements string
	Tags       map[string]bool
	Where      string
	IsLemma    bool
	Steps      []LemmaStep
	LemmaVars  []CVar
	Imports    map[string]string
	Key        string // resolved canonical key
}

type GhostDecl struct {
	Name    string
	Params  []CVar
	Result  string
	IsState bool
	Def     *CExpr // for define
	PkgPath string
	Imports map[string]string
	Where   string
}

type GuardSpec struct {
	Type   string   // struct type name (in the file's package)
	Mutex  string   // mutex field name
	Fields []string // guarded field names
	Tags   []string
	Where  string
}

type ContractFile struct {
	Guards  []*GuardSpec
	Path    string
	PkgPath string
	Imports map[string]string
	Funcs   []*FuncContract
	Ghosts  []*GhostDecl
	Axioms  []*Clause
	Guarded []string
}

var clauseKW = map[string]bool{"func": true, "requires": true, "ensures": true, "assigns": true, "loop": true,
	"invariant": true, "modifies": true, "unroll": true, "let": true, "checks": true, "trusted": true, "pure": true, "inline": true,
	"implements": true, "ghost": true, "define": true, "axiom": true, "lemma": true, "calls": true, "assert": true,
	"assume": true, "import": true, "noinline": true, "decreases": true, "atcall": true, "callsonly": true, "cancellable": true, "neverreads": true, "guardedby": true, "dynamiccalls": true}

var tagRe = regexp.MustCompile(`^((?:@(?:C[0-9]+|SAFETY|DET)\s*)+):?\s*`)

func parseContractFile(path, pkgPath string, isSpeclib bool) (*ContractFile, error) {
	data, err := os.ReadFile(path)
	if err != nil {
		return nil, err
	}
	cf := &ContractFile{Path: path, PkgPath: pkgPath, Imports: map[string]string{}}
	// 1. collect logical lines
	type lline struct {
		kw, text string
		line     int
	}
	var lines []lline
	for i, raw := range strings.Split(string(data), "\n") {
		t := strings.TrimSpace(raw)
		if !strings.HasPrefix(t, "//@") {
			continue
		}
		body := strings.TrimSpace(t[3:])
		if body == "" {
			continue
		}
		// strip trailing "// comment" that is outside a string
		if k := findLineComment(body); k >= 0 {
			body = strings.TrimSpace(body[:k])
		}
		if body == "" {
			continue
		}
		first := body
		if j := strings.IndexAny(body, " \t:"); j >= 0 {
			first = body[:j]
		}
		if clauseKW[first] {
			rest := strings.TrimSpace(body[len(first):])
			lines = append(lines, lline{first, rest, i + 1})
		} else {
			if len(lines) == 0 {
				return nil, fmt.Errorf("%s:%d: continuation line with nothing to continue", path, i+1)
			}
			lines[len(lines)-1].text += " " + body
		}
	}
	var cur *FuncContract
	var curLoop *LoopSpec
	ordCount := map[string]int{}
	mkClause := func(kind, text string, line int) (*Clause, error) {
		c := &Clause{Kind: kind, Where: fmt.Sprintf("%s:%d", path, line)}
		if m := tagRe.FindStringSubmatch(text); m != nil {
			for _, tg := range strings.Fields(m[1]) {
				c.Tags = append(c.Tags, strings.TrimPrefix(tg, "@"))
			}
			text = text[len(m[0]):]
		}
		c.Text = text
		e, err := parseCExpr(text)
		if err != nil {
			return nil, fmt.Errorf("%s:%d: %v", path, line, err)
		}
		c.Expr = e
		return c, nil
	}
	for _, l := range lines {
		where := fmt.Sprintf("%s:%d", path, l.line)
		switch l.kw {
		case "import":
			f := strings.Fields(l.text)
			if len(f) != 2 {
				return nil, fmt.Errorf("%s: import alias \"path\"", where)
			}
			p, err := strconv.Unquote(f[1])
			if err != nil {
				return nil, fmt.Errorf("%s: %v", where, err)
			}
			cf.Imports[f[0]] = p
		case "func", "lemma":
			fc, err := parseSig(l.text, l.kw == "lemma")
			if err != nil {
				return nil, fmt.Errorf("%s: %v", where, err)
			}
			fc.File = path
			fc.PkgPath = pkgPath
			fc.Where = where
			fc.Imports = cf.Imports
			fc.Loops = map[int]*LoopSpec{}
			fc.Checks = map[string]bool{}
			fc.Tags = map[string]bool{}
			cf.Funcs = append(cf.Funcs, fc)
			cur = fc
			curLoop = nil
			ordCount = map[string]int{}
		case "guardedby":
			// guardedby [@tags:] T.m: f1, f2
			text := l.text
			g := &GuardSpec{Where: where}
			if m := tagRe.FindStringSubmatch(text); m != nil {
				for _, tg := range strings.Fields(m[1]) {
					g.Tags = append(g.Tags, strings.TrimPrefix(tg, "@"))
				}
				text = text[len(m[0]):]
			}
			parts := strings.SplitN(text, ":", 2)
			tm := strings.SplitN(strings.TrimSpace(parts[0]), ".", 2)
			if len(parts) != 2 || len(tm) != 2 {
				return nil, fmt.Errorf("%s: guardedby T.m: f1, f2", where)
			}
			g.Type, g.Mutex = tm[0], tm[1]
			for _, f := range strings.Split(parts[1], ",") {
				if f = strings.TrimSpace(f); f != "" {
					g.Fields = append(g.Fields, f)
				}
			}
			cf.Guards = append(cf.Guards, g)
		case "ghost", "define":
			g, err := parseGhost(l.kw, l.text)
			if err != nil {
				return nil, fmt.Errorf("%s: %v", where, err)
			}
			g.PkgPath = pkgPath
			g.Imports = cf.Imports
			g.Where = where
			cf.Ghosts = append(cf.Ghosts, g)
		case "axiom":
			if !isSpeclib {
				return nil, fmt.Errorf("%s: axiom is only allowed in the spec library", where)
			}
			c, err := mkClause("axiom", l.text, l.line)
			if err != nil {
				return nil, err
			}
			cf.Axioms = append(cf.Axioms, c)
		default:
			if cur == nil {
				return nil, fmt.Errorf("%s: clause %q outside a func block", where, l.kw)
			}
			switch l.kw {
			case "requires", "ensures":
				c, err := mkClause(l.kw, l.text, l.line)
				if err != nil {
					return nil, err
				}
				ordCount[l.kw]++
				c.Ord = ordCount[l.kw]
				for _, t := range c.Tags {
					cur.Tags[t] = true
				}
				if l.kw == "requires" {
					cur.Requires = append(cur.Requires, c)
				} else {
					cur.Ensures = append(cur.Ensures, c)
				}
				curLoop = nil
			case "assert", "assume":
				c, err := mkClause(l.kw, l.text, l.line)
				if err != nil {
					return nil, err
				}
				if !cur.IsLemma {
					return nil, fmt.Errorf("%s: %s only inside a lemma", where, l.kw)
				}
				if l.kw == "assume" && !isSpeclib {
					return nil, fmt.Errorf("%s: assume is not allowed in repository contract files", where)
				}
				ordCount[l.kw]++
				c.Ord = ordCount[l.kw]
				if l.kw == "assert" {
					cur.Steps = append(cur.Steps, LemmaStep{Assert: c})
				} else {
					cur.Steps = append(cur.Steps, LemmaStep{Assume: c})
				}
			case "calls":
				cs, err := parseCallStep(l.text)
				if err != nil {
					return nil, fmt.Errorf("%s: %v", where, err)
				}
				cs.Where = where
				cur.Steps = append(cur.Steps, LemmaStep{Call: cs})
			case "assigns":
				cur.HasAssigns = true
				for _, d := range splitTop(l.text, ',') {
					d = strings.TrimSpace(d)
					if d != "" && d != "nothing" {
						cur.Assigns = append(cur.Assigns, d)
					}
				}
			case "loop":
				t := strings.TrimSuffix(strings.TrimSpace(l.text), ":")
				n, err := strconv.Atoi(strings.TrimSpace(t))
				if err != nil {
					return nil, fmt.Errorf("%s: loop ordinal: %v", where, err)
				}
				curLoop = &LoopSpec{Ord: n}
				cur.Loops[n] = curLoop
			case "invariant":
				if curLoop == nil {
					return nil, fmt.Errorf("%s: invariant outside loop", where)
				}
				c, err := mkClause("invariant", l.text, l.line)
				if err != nil {
					return nil, err
				}
				c.Ord = len(curLoop.Invs) + 1
				for _, t := range c.Tags {
					cur.Tags[t] = true
				}
				curLoop.Invs = append(curLoop.Invs, c)
			case "modifies":
				if curLoop == nil {
					return nil, fmt.Errorf("%s: modifies outside loop", where)
				}
				for _, d := range splitTop(l.text, ',') {
					d = strings.TrimSpace(d)
					if d != "" {
						curLoop.Modifies = append(curLoop.Modifies, d)
					}
				}
			case "unroll":
				if curLoop == nil {
					return nil, fmt.Errorf("%s: unroll outside loop", where)
				}
				n, err := strconv.Atoi(strings.TrimSpace(l.text))
				if err != nil {
					return nil, fmt.Errorf("%s: %v", where, err)
				}
				curLoop.Unroll = n
			case "decreases":
				// accepted and recorded only (termination is not checked by govc)
			case "let":
				parts := strings.SplitN(l.text, ":=", 2)
				if len(parts) != 2 {
					return nil, fmt.Errorf("%s: let x := e", where)
				}
				e, err := parseCExpr(strings.TrimSpace(parts[1]))
				if err != nil {
					return nil, fmt.Errorf("%s: %v", where, err)
				}
				ld := LetDef{strings.TrimSpace(parts[0]), e}
				if curLoop != nil {
					curLoop.Lets = append(curLoop.Lets, ld)
				} else {
					cur.Lets = append(cur.Lets, ld)
				}
			case "atcall":
				// atcall <callee>[#k] before|after: snap x := e   |   assert [@tags:] e
				i := strings.Index(l.text, ":")
				if i < 0 {
					return nil, fmt.Errorf("%s: atcall <callee>[#k] before|after: ...", where)
				}
				hd := strings.Fields(l.text[:i])
				body := strings.TrimSpace(l.text[i+1:])
				if len(hd) != 2 || (hd[1] != "before" && hd[1] != "after") {
					return nil, fmt.Errorf("%s: atcall <callee>[#k] before|after: ...", where)
				}
				h := &CallHook{Callee: hd[0], When: hd[1], Where: where}
				if strings.HasPrefix(hd[0], "!") {
					hd[0] = strings.TrimPrefix(hd[0], "!")
					h.Callee, h.ExecOnly = hd[0], true
				}
				if k := strings.Index(hd[0], "#"); k >= 0 {
					n, err := strconv.Atoi(hd[0][k+1:])
					if err != nil {
						return nil, fmt.Errorf("%s: %v", where, err)
					}
					h.Callee, h.Ord = hd[0][:k], n
				}
				switch {
				case strings.HasPrefix(body, "snap "):
					parts := strings.SplitN(body[5:], ":=", 2)
					if len(parts) != 2 {
						return nil, fmt.Errorf("%s: snap x := e", where)
					}
					h.Kind, h.Name = "snap", strings.TrimSpace(parts[0])
					c, err := mkClause("snap", strings.TrimSpace(parts[1]), l.line)
					if err != nil {
						return nil, err
					}
					h.Clause = c
				case strings.HasPrefix(body, "assert "):
					h.Kind = "assert"
					c, err := mkClause("atcall", strings.TrimSpace(body[7:]), l.line)
					if err != nil {
						return nil, err
					}
					ordCount["atcall"]++
					c.Ord = ordCount["atcall"]
					for _, t := range c.Tags {
						cur.Tags[t] = true
					}
					h.Clause = c
				default:
					return nil, fmt.Errorf("%s: atcall body must be snap or assert", where)
				}
				cur.Hooks = append(cur.Hooks, h)
			case "dynamiccalls":
				// dynamiccalls assigns d1, d2
				t := strings.TrimSpace(strings.TrimPrefix(strings.TrimSpace(l.text), "assigns"))
				cur.HasDyn = true
				for _, d := range splitTop(t, ',') {
					if d = strings.TrimSpace(d); d != "" && d != "nothing" {
						cur.DynAssigns = append(cur.DynAssigns, d)
					}
				}
			case "callsonly":
				text := l.text
				if m := tagRe.FindStringSubmatch(text); m != nil {
					for _, tg := range strings.Fields(m[1]) {
						cur.CallsTags = append(cur.CallsTags, strings.TrimPrefix(tg, "@"))
						cur.Tags[strings.TrimPrefix(tg, "@")] = true
					}
					text = text[len(m[0]):]
				}
				for _, f := range strings.Split(text, ",") {
					if f = strings.TrimSpace(f); f != "" {
						cur.CallsOnly = append(cur.CallsOnly, f)
					}
				}
			case "neverreads":
				text := l.text
				if m := tagRe.FindStringSubmatch(text); m != nil {
					for _, tg := range strings.Fields(m[1]) {
						cur.NeverTags = append(cur.NeverTags, strings.TrimPrefix(tg, "@"))
						cur.Tags[strings.TrimPrefix(tg, "@")] = true
					}
					text = text[len(m[0]):]
				}
				for _, f := range strings.Split(text, ",") {
					if f = strings.TrimSpace(f); f != "" {
						cur.NeverReads = append(cur.NeverReads, f)
					}
				}
			case "cancellable":
				text := l.text
				if m := tagRe.FindStringSubmatch(text); m != nil {
					for _, tg := range strings.Fields(m[1]) {
						cur.CancelTags = append(cur.CancelTags, strings.TrimPrefix(tg, "@"))
						cur.Tags[strings.TrimPrefix(tg, "@")] = true
					}
					text = text[len(m[0]):]
				}
				cur.Cancellable = strings.TrimSpace(text)
			case "checks":
				for _, f := range strings.Fields(strings.ReplaceAll(l.text, ",", " ")) {
					cur.Checks[f] = true
				}
			case "trusted":
				cur.Trusted = true
			case "pure":
				cur.Pure = true
				cur.HasAssigns = true
			case "noinline":
				cur.NoInline = true
			case "inline":
				// the contract is checked on the function itself; callers keep inlining the body (closures that are
				// both called in place and spawned)
				cur.Inline = true
			case "implements":
				cur.Implements = strings.TrimSpace(l.text)
			}
		}
	}
	return cf, nil
}

func findLineComment(s string) int {
	inStr := false
	for i := 0; i+1 < len(s); i++ {
		if s[i] == '"' && (i == 0 || s[i-1] != '\\') {
			inStr = !inStr
		}
		if !inStr && s[i] == '/' && s[i+1] == '/' {
			return i
		}
	}
	return -1
}

func splitTop(s string, sep byte) []string {
	var out []string
	depth := 0
	last := 0
	inStr := false
	for i := 0; i < len(s); i++ {
		c := s[i]
		if c == '"' {
			inStr = !inStr
		}
		if inStr {
			continue
		}
		if c == '(' || c == '[' {
			depth++
		}
		if c == ')' || c == ']' {
			depth--
		}
		if c == sep && depth == 0 {
			out = append(out, s[last:i])
			last = i + 1
		}
	}
	out = append(out, s[last:])
	return out
}

// parseSig parses "func-like" signature text using go/parser.
// Forms: "(r *T) name(a A, b B) (x X, err error)", "pkg.Name(a A) R", "name$1(...)".
func parseSig(text string, lemma bool) (*FuncContract, error) {
	fc := &FuncContract{Sig: text, IsLemma: lemma}
	t := strings.TrimSpace(text)
	// qualifier pkg.Name( for plain functions
	recv := ""
	if strings.HasPrefix(t, "(") {
		// receiver
		depth := 0
		end := -1
		for i := 0; i < len(t); i++ {
			if t[i] == '(' {
				depth++
			}
			if t[i] == ')' {
				depth--
				if depth == 0 {
					end = i
					break
				}
			}
		}
		if end < 0 {
			return nil, fmt.Errorf("bad receiver in %q", text)
		}
		recv = t[:end+1]
		t = strings.TrimSpace(t[end+1:])
	}
	par := strings.Index(t, "(")
	name := t
	rest := "()"
	if par >= 0 {
		name = t[:par]
		rest = t[par:]
	}
	name = strings.TrimSpace(name)
	if k := strings.LastIndex(name, "."); k >= 0 && recv == "" {
		fc.Qual = name[:k]
		name = name[k+1:]
	}
	fc.Name = name
	goName := strings.NewReplacer("$", "_S_", "*", "STAR_").Replace(name)
	src := "package p\nfunc " + recv + " " + goName + rest + " {}\n"
	fset := token.NewFileSet()
	f, err := parser.ParseFile(fset, "sig.go", src, parser.SkipObjectResolution)
	if err != nil {
		return nil, fmt.Errorf("cannot parse signature %q: %v", text, err)
	}
	fd := f.Decls[0].(*ast.FuncDecl)
	if fd.Recv != nil && len(fd.Recv.List) == 1 {
		r := fd.Recv.List[0]
		if len(r.Names) == 1 {
			fc.Recv = r.Names[0].Name
		} else {
			fc.Recv = "_recv"
		}
		fc.RecvType = src[r.Type.Pos()-1 : r.Type.End()-1]
	}
	n := 0
	for _, p := range fd.Type.Params.List {
		if len(p.Names) == 0 {
			fc.Params = append(fc.Params, fmt.Sprintf("_p%d", n))
			n++
		}
		for _, nm := range p.Names {
			fc.Params = append(fc.Params, nm.Name)
			n++
		}
		if lemma {
			ty := src[p.Type.Pos()-1 : p.Type.End()-1]
			for _, nm := range p.Names {
				fc.LemmaVars = append(fc.LemmaVars, CVar{nm.Name, ty})
			}
		}
	}
	if fd.Type.Results != nil {
		n = 0
		for _, p := range fd.Type.Results.List {
			if len(p.Names) == 0 {
				fc.Results = append(fc.Results, "")
				n++
			}
			for _, nm := range p.Names {
				fc.Results = append(fc.Results, nm.Name)
				n++
			}
		}
	}
	return fc, nil
}

func parseGhost(kw, text string) (*GhostDecl, error) {
	g := &GhostDecl{}
	t := strings.TrimSpace(text)
	var def string
	if kw == "define" {
		parts := strings.SplitN(t, " = ", 2)
		if len(parts) != 2 {
			return nil, fmt.Errorf("define name(args) T = expr")
		}
		t = strings.TrimSpace(parts[0])
		def = parts[1]
	} else {
		if strings.HasPrefix(t, "func ") {
			t = strings.TrimSpace(t[5:])
		} else if strings.HasPrefix(t, "state ") {
			t = strings.TrimSpace(t[6:])
			g.IsState = true
		} else {
			return nil, fmt.Errorf("ghost func|state ...")
		}
	}
	par := strings.Index(t, "(")
	if par < 0 {
		return nil, fmt.Errorf("missing ( in ghost decl %q", text)
	}
	g.Name = strings.TrimSpace(t[:par])
	depth := 0
	end := -1
	for i := par; i < len(t); i++ {
		if t[i] == '(' {
			depth++
		}
		if t[i] == ')' {
			depth--
			if depth == 0 {
				end = i
				break
			}
		}
	}
	if end < 0 {
		return nil, fmt.Errorf("unbalanced parens in %q", text)
	}
	for _, p := range splitTop(t[par+1:end], ',') {
		p = strings.TrimSpace(p)
		if p == "" {
			continue
		}
		k := strings.IndexAny(p, " \t")
		if k < 0 {
			return nil, fmt.Errorf("ghost param needs name and type: %q", p)
		}
		g.Params = append(g.Params, CVar{p[:k], strings.TrimSpace(p[k:])})
	}
	g.Result = strings.TrimSpace(t[end+1:])
	if def != "" {
		e, err := parseCExpr(def)
		if err != nil {
			return nil, err
		}
		g.Def = e
	}
	return g, nil
}

func parseCallStep(text string) (*CallStep, error) {
	parts := strings.SplitN(text, ":=", 2)
	cs := &CallStep{}
	callText := text
	if len(parts) == 2 {
		for _, r := range strings.Split(parts[0], ",") {
			cs.Results = append(cs.Results, strings.TrimSpace(r))
		}
		callText = parts[1]
	}
	e, err := parseCExpr(strings.TrimSpace(callText))
	if err != nil {
		return nil, err
	}
	if e.Op != "call" {
		return nil, fmt.Errorf("calls: expected a call expression")
	}
	cs.Callee = e.Args[0].String()
	cs.Args = e.Args[1:]
	return cs, nil
}
