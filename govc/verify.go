package main

import (
	"context"
	"fmt"
	"go/types"
	"os"
	"sort"
	"strings"
	"sync"
	"time"

	"golang.org/x/tools/go/ssa"
)

type OblResult struct {
	Name    string   `json:"name"`
	Kind    string   `json:"kind"`
	Func    string   `json:"func"`
	Clause  string   `json:"clause,omitempty"`
	Pos     string   `json:"pos,omitempty"`
	Tags    []string `json:"tags,omitempty"`
	Status  string   `json:"status"` // discharged | failed | undecided | trivial
	Answer  string   `json:"answer,omitempty"`
	Solver  string   `json:"solver,omitempty"`
	Secs    float64  `json:"secs"`
	Paths   int      `json:"paths"`
	Bounded int      `json:"bounded,omitempty"`
	Model   string   `json:"model,omitempty"`
	Query   string   `json:"-"`
	Second  string   `json:"second_backend,omitempty"`
}

type FuncReport struct {
	Key         string            `json:"key"`
	File        string            `json:"file"`
	Instrs      int               `json:"ssa_instrs"`
	Paths       int               `json:"paths"`
	ReturnPaths int               `json:"feasible_return_paths"`
	Unsupported []string          `json:"unsupported,omitempty"`
	Abstracted  []string          `json:"abstracted,omitempty"`
	Inlined     []string          `json:"inlined,omitempty"`
	Specs       []string          `json:"assumed_contracts_used,omitempty"`
	Havocked    []string          `json:"havocked_calls,omitempty"`
	Bounded     map[string]int    `json:"bounded_loops,omitempty"`
	Obligations []*OblResult      `json:"-"`
	VacuityPre  string            `json:"vacuity_pre"`
	IsLemma     bool              `json:"is_lemma,omitempty"`
	SolverSecs  map[string]float64 `json:"solver_secs"`
	Trusted     bool              `json:"trusted,omitempty"`
}

type inputTerm struct {
	name string
	term string
}

func (e *Engine) resetFunc(key string) {
	e.initHeaps = map[string]string{}
	e.trivial = nil
	e.paths = nil
	e.unsupp = nil
	e.curFunc = key
	e.pathCount = 0
	e.abstracted = map[string]bool{}
	e.usedSpecs = map[string]bool{}
	e.inlinedFns = map[string]bool{}
	e.havocCalls = map[string]bool{}
	e.boundedLoops = map[string]int{}
	e.usedGhostFuncs = map[string]bool{}
	e.inputs = nil
	e.retCovers = 0
	e.typedOnce = nil
	e.closures = map[string]Val{}
}

func (e *Engine) findFunc(key string) *ssa.Function {
	if f, ok := e.funcIndex[key]; ok {
		return f
	}
	return nil
}

func (e *Engine) buildFuncIndex() {
	e.funcIndex = map[string]*ssa.Function{}
	var addFn func(f *ssa.Function)
	addFn = func(f *ssa.Function) {
		if f == nil {
			return
		}
		k := keyOf(f)
		if _, ok := e.funcIndex[k]; !ok {
			e.funcIndex[k] = f
		}
		for _, a := range f.AnonFuncs {
			addFn(a)
		}
	}
	for _, p := range e.prog.AllPackages() {
		for _, m := range p.Members {
			switch x := m.(type) {
			case *ssa.Function:
				addFn(x)
			case *ssa.Type:
				for _, t := range []types.Type{x.Type(), types.NewPointer(x.Type())} {
					ms := e.prog.MethodSets.MethodSet(t)
					for i := 0; i < ms.Len(); i++ {
						if f := e.prog.MethodValue(ms.At(i)); f != nil && f.Synthetic == "" {
							addFn(f)
						}
					}
				}
			}
		}
	}
}

func (e *Engine) verifyFunc(fc *FuncContract, cfg *RunCfg) *FuncReport {
	e.resetFunc(fc.Key)
	rep := &FuncReport{Key: fc.Key, File: fc.Where, SolverSecs: map[string]float64{}}
	if fc.IsLemma {
		rep.IsLemma = true
		e.verifyLemma(fc)
	} else {
		fn := e.findFunc(fc.Key)
		if fn == nil || fn.Blocks == nil {
			rep.Obligations = append(rep.Obligations, &OblResult{Name: "contract.binding/" + fc.Key, Kind: "binding", Func: fc.Key, Status: "failed", Answer: "function not found in the loaded program"})
			return rep
		}
		for _, b := range fn.Blocks {
			rep.Instrs += len(b.Instrs)
		}
		// every loop of the function needs a spec
		li := e.loops(fn)
		for ord := range fc.Loops {
			if ord < 1 || ord > len(li.list) {
				rep.Obligations = append(rep.Obligations, &OblResult{Name: fmt.Sprintf("contract.binding/%s.loop%d", fc.Key, ord), Kind: "binding", Func: fc.Key, Status: "failed", Answer: fmt.Sprintf("function has %d loops", len(li.list))})
			}
		}
		// every atcall hook must be able to fire somewhere in the function
		for hi, h := range fc.Hooks {
			need := 1
			if h.Ord > 0 {
				need = h.Ord
			}
			if got := e.hookSites(fn, h); got < need {
				ordTxt := ""
				if h.Ord > 0 {
					ordTxt = fmt.Sprintf("#%d", h.Ord)
				}
				rep.Obligations = append(rep.Obligations, &OblResult{Name: fmt.Sprintf("contract.binding/%s.atcall.%s%s.%s.hook%d", fc.Key, h.Callee, ordTxt, h.When, hi+1), Kind: "binding", Func: fc.Key, Status: "failed",
					Answer: fmt.Sprintf("the hook matches %d call site(s) of the function (needs %d): its clause is no longer checked", got, need)})
			}
		}
		e.runFunc(fn, fc)
	}
	rep.Paths = len(e.paths)
	rep.Unsupported = append(rep.Unsupported, e.unsupp...)
	rep.Abstracted = keysOf(e.abstracted)
	rep.Inlined = keysOf(e.inlinedFns)
	rep.Specs = keysOf(e.usedSpecs)
	rep.Havocked = keysOf(e.havocCalls)
	rep.Bounded = e.boundedLoops
	for _, u := range e.unsupp {
		rep.Obligations = append(rep.Obligations, &OblResult{Name: "unsupported/" + fc.Key, Kind: "unsupported", Func: fc.Key, Status: "undecided", Answer: u})
	}
	e.discharge(rep, cfg)
	return rep
}

func keysOf(m map[string]bool) []string {
	var out []string
	for k := range m {
		out = append(out, k)
	}
	sort.Strings(out)
	return out
}

func (e *Engine) runFunc(fn *ssa.Function, fc *FuncContract) {
	st := &State{e: e, heaps: map[string]string{}, wmBase: "0", private: map[string]bool{}, iters: map[ssa.Value]*mapIter{}}
	fr := &Frame{fn: fn, regs: map[ssa.Value]Val{}, block: fn.Blocks[0], names: map[string]Val{}, nameAddr: map[string]bool{},
		cut: map[*ssa.BasicBlock]bool{}, unrolled: map[*ssa.BasicBlock]int{}, contract: fc}
	st.frames = []*Frame{fr}
	for _, p := range fn.Params {
		v := st.freshVal(p.Type(), "p_"+sanitize(p.Name()))
		v.Ty = p.Type()
		fr.regs[p] = v
		fr.names[p.Name()] = v
		fr.params = append(fr.params, v)
		e.registerInput(p.Name(), v)
	}
	for _, fv := range fn.FreeVars {
		v := st.freshVal(fv.Type(), "fv_"+sanitize(fv.Name()))
		fr.regs[fv] = v
		fr.names[fv.Name()] = v
		fr.nameAddr[fv.Name()] = true
	}
	env := e.contractEnv(st, fc, fn.Signature, fr.params)
	env.fr = nil
	// a closure's preconditions may speak about the variables it captures (their values at entry)
	for _, fv := range fn.FreeVars {
		if pt := derefType(fv.Type()); pt != nil {
			if _, taken := env.vars[fv.Name()]; !taken {
				env.vars[fv.Name()] = st.load(fr.regs[fv].T, pt, "")
			}
		}
	}
	for _, r := range fc.Requires {
		t, err := e.evalBool(st, env, r.Expr)
		if err != nil {
			e.unsupported("requires %d of %s: %v", r.Ord, fc.Key, err)
			continue
		}
		st.assume(t)
	}
	fr.oldHeaps = map[string]string{}
	for k, v := range st.heaps {
		fr.oldHeaps[k] = v
	}
	st.addCheck(&Check{Name: "vacuity." + fc.Key + ".pre", Kind: "vacuity", Goal: "false", Cover: true, Func: fc.Key})
	if fc.HasAssigns {
		ds, all, err := e.evalDesignators(st, env, fc.Assigns)
		if err != nil {
			e.unsupported("assigns of %s: %v", fc.Key, err)
		} else {
			ac := &assignsCtx{all: all, byHeap: map[string][]desig{}, enabled: true}
			for _, d := range ds {
				ac.byHeap[d.heap] = append(ac.byHeap[d.heap], d)
			}
			st.assignsEnv = ac
		}
	}
	e.explore(st, 0, nil, 0)
}

func (e *Engine) registerInput(name string, v Val) {
	switch v.K {
	case KSlice:
		e.inputs = append(e.inputs, inputTerm{name + ".len", v.Len}, inputTerm{name + ".base", v.Base}, inputTerm{name + ".off", v.Off})
	case KStruct, KTuple, KArr:
		for i, f := range v.F {
			if i < 40 {
				e.registerInput(fmt.Sprintf("%s.%d", name, i), f)
			}
		}
	case KUnit, KLazy:
	default:
		if v.T != "" {
			e.inputs = append(e.inputs, inputTerm{name, v.T})
		}
	}
}

func (e *Engine) checkPost(st *State, res []Val, pos interface{}) {
	fr := st.frames[0]
	fc := fr.contract
	if fc == nil {
		return
	}
	env := e.contractEnv(st, fc, fr.fn.Signature, fr.params)
	env.old = fr.oldHeaps
	env.fr = fr // snap variables recorded by atcall hooks are visible in postconditions
	bindResults(env, fc, res)
	for _, en := range fc.Ensures {
		if hasTag(en.Tags, "DET") {
			// "the result is a function of the arguments named g(args)": a naming of the (deterministic) result by an
			// uninterpreted function, used by callers, not provable from the body; listed as an assumption
			e.abstracted["assumed clause (result named by an uninterpreted function of the arguments): "+fc.Key+": "+en.Text] = true
			continue
		}
		t, err := e.evalBool(st, env, en.Expr)
		if err != nil {
			e.unsupported("ensures %d of %s: %v", en.Ord, fc.Key, err)
			continue
		}
		st.addCheck(&Check{Name: fmt.Sprintf("%s.post.%d", fc.Key, en.Ord), Kind: "post", Goal: t, Pos: en.Where, Tags: en.Tags, Func: fc.Key, Clause: en.Text, Bounded: st.boundedNow()})
	}
	// reachability probes are expensive with quantifiers in the context: a handful per function is enough to show
	// that the contract is not vacuous
	e.retCovers++
	if e.retCovers <= 6 {
		st.addCheck(&Check{Name: "vacuity." + fc.Key + ".return", Kind: "vacuity", Goal: "false", Cover: true, Func: fc.Key})
	}
}

// ---------- lemmas: straight-line ghost programs over contracts ----------

func (e *Engine) verifyLemma(fc *FuncContract) {
	st := &State{e: e, heaps: map[string]string{}, wmBase: "0", private: map[string]bool{}, iters: map[ssa.Value]*mapIter{}}
	fr := &Frame{regs: map[ssa.Value]Val{}, names: map[string]Val{}, nameAddr: map[string]bool{}, cut: map[*ssa.BasicBlock]bool{}, unrolled: map[*ssa.BasicBlock]int{}, contract: fc}
	st.frames = []*Frame{fr}
	env := &cenv{vars: map[string]Val{}, lets: map[string]*CExpr{}, pkgPath: fc.PkgPath, imports: fc.Imports}
	for _, lv := range fc.LemmaVars {
		t, err := e.resolveType(lv.Type, fc.PkgPath, fc.Imports)
		if err != nil {
			e.unsupported("lemma %s: %v", fc.Name, err)
			return
		}
		v := st.freshVal(t, "l_"+lv.Name)
		v.Ty = t
		env.vars[lv.Name] = v
		e.registerInput(lv.Name, v)
	}
	for _, ld := range fc.Lets {
		env.lets[ld.Name] = ld.Expr
	}
	for _, r := range fc.Requires {
		t, err := e.evalBool(st, env, r.Expr)
		if err != nil {
			e.unsupported("lemma %s requires: %v", fc.Name, err)
			return
		}
		st.assume(t)
	}
	env.old = map[string]string{}
	for k, v := range st.heaps {
		env.old[k] = v
	}
	fr.oldHeaps = env.old
	st.addCheck(&Check{Name: "vacuity." + fc.Key + ".pre", Kind: "vacuity", Goal: "false", Cover: true, Func: fc.Key})
	for _, s := range fc.Steps {
		switch {
		case s.Call != nil:
			key := e.resolveCalleeKey(s.Call.Callee, fc.PkgPath, fc.Imports)
			cc := e.lookupContract(key)
			fn := e.findFunc(key)
			if cc == nil || fn == nil {
				e.unsupported("lemma %s: callee %s has no contract or is unknown (key %s)", fc.Name, s.Call.Callee, key)
				return
			}
			var args []Val
			for _, a := range s.Call.Args {
				v, err := e.evalC(st, env, a)
				if err != nil {
					e.unsupported("lemma %s: %v", fc.Name, err)
					return
				}
				args = append(args, v)
			}
			e.usedSpecs[key+" (contract verified against its body)"] = true
			res := e.applyContract(st, cc, key, fn.Signature, args, fn.Pos())
			var rs []Val
			if res.K == KTuple {
				rs = res.F
			} else if res.K != KUnit {
				rs = []Val{res}
			}
			for i, n := range s.Call.Results {
				if i < len(rs) && n != "_" {
					env.vars[n] = rs[i]
				}
			}
		case s.Assert != nil:
			t, err := e.evalBool(st, env, s.Assert.Expr)
			if err != nil {
				e.unsupported("lemma %s assert: %v", fc.Name, err)
				return
			}
			st.addCheck(&Check{Name: fmt.Sprintf("%s.assert.%d", fc.Key, s.Assert.Ord), Kind: "assert", Goal: t, Pos: s.Assert.Where, Tags: s.Assert.Tags, Func: fc.Key, Clause: s.Assert.Text})
			st.assume(t)
		case s.Assume != nil:
			t, err := e.evalBool(st, env, s.Assume.Expr)
			if err != nil {
				e.unsupported("lemma %s assume: %v", fc.Name, err)
				return
			}
			st.assume(t)
		}
	}
	for _, en := range fc.Ensures {
		t, err := e.evalBool(st, env, en.Expr)
		if err != nil {
			e.unsupported("lemma %s ensures: %v", fc.Name, err)
			continue
		}
		st.addCheck(&Check{Name: fmt.Sprintf("%s.post.%d", fc.Key, en.Ord), Kind: "post", Goal: t, Pos: en.Where, Tags: en.Tags, Func: fc.Key, Clause: en.Text})
	}
	st.addCheck(&Check{Name: "vacuity." + fc.Key + ".return", Kind: "vacuity", Goal: "false", Cover: true, Func: fc.Key})
	e.endPath(st, "lemma")
}

func (e *Engine) resolveCalleeKey(text, pkgPath string, imports map[string]string) string {
	t := strings.TrimSpace(text)
	if strings.HasPrefix(t, "(") {
		// (T).M or (pkg.T).M
		end := strings.Index(t, ")")
		rt := strings.TrimPrefix(t[1:end], "*")
		m := strings.TrimPrefix(t[end+1:], ".")
		if i := strings.Index(rt, "."); i >= 0 {
			if p := e.resolvePkg(rt[:i], pkgPath, imports); p != nil {
				return "(" + p.Path() + "." + rt[i+1:] + ")." + m
			}
		}
		return "(" + pkgPath + "." + rt + ")." + m
	}
	if i := strings.Index(t, "."); i >= 0 {
		// Type.Method of the current package?
		if cur := e.pkgByPath(pkgPath); cur != nil {
			if _, isType := cur.Scope().Lookup(t[:i]).(*types.TypeName); isType {
				return "(" + pkgPath + "." + t[:i] + ")." + t[i+1:]
			}
		}
		if p := e.resolvePkg(t[:i], pkgPath, imports); p != nil {
			return p.Path() + "." + t[i+1:]
		}
	}
	return pkgPath + "." + t
}

// ---------- script generation and discharge ----------

type pathScript struct {
	body   string
	checks []*Check
	prefix []string // for each check: the script text up to (not including) that check's push
}

func (e *Engine) header() string {
	var sb strings.Builder
	sb.WriteString("PREAMBLE")
	sb.WriteString("(define-fun substr_ ((s Str) (lo Int) (hi Int)) Str (substr_u s lo hi))\n")
	var hs []string
	for n := range e.initHeaps {
		hs = append(hs, n)
	}
	sort.Strings(hs)
	for _, n := range hs {
		fmt.Fprintf(&sb, "(declare-const %s %s)\n", e.initHeaps[n], e.heapSortOf(n))
	}
	var gs []string
	for n := range e.ghosts {
		gs = append(gs, n)
	}
	sort.Strings(gs)
	for _, n := range gs {
		g := e.ghosts[n]
		if g.IsState || g.Def != nil {
			continue
		}
		d, err := e.ghostFuncDecl(g)
		if err != nil {
			continue
		}
		sb.WriteString(d + "\n")
	}
	return sb.String()
}

func (e *Engine) strLitDecls(body string) string {
	var sb strings.Builder
	var used []string
	for _, s := range e.strOrder {
		n := e.strLits[s]
		if strings.Contains(body, n+" ") || strings.Contains(body, n+")") {
			used = append(used, n)
			fmt.Fprintf(&sb, "(declare-const %s Str)\n(assert (= (slen %s) %d))\n", n, n, len(s))
			if len(s) <= 24 {
				for i := 0; i < len(s); i++ {
					fmt.Fprintf(&sb, "(assert (= (sat %s %d) %d))\n", n, i, s[i])
				}
			}
		}
	}
	if len(used) > 1 {
		sb.WriteString("(assert (distinct " + strings.Join(used, " ") + "))\n")
	}
	return sb.String()
}

func nodesOf(tail *node) []*node {
	var out []*node
	for n := tail; n != nil; n = n.prev {
		out = append(out, n)
	}
	for i, j := 0, len(out)-1; i < j; i, j = i+1, j-1 {
		out[i], out[j] = out[j], out[i]
	}
	return out
}

type RunCfg struct {
	Tier       string
	PerCheckMs int
	Workers    int
	Second     bool // confirm with a second back end
	Seed       int64
}

func (e *Engine) discharge(rep *FuncReport, cfg *RunCfg) {
	hdr := e.header()
	seen := map[int]bool{}
	type job struct {
		script string
		checks []*Check
		prefix []string
	}
	var jobs []job
	checkPaths := map[int]int{}
	for _, p := range e.paths {
		nodes := nodesOf(p.tail)
		var sb strings.Builder
		var cs []*Check
		var prefixes []string
		for _, n := range nodes {
			if n.check == nil {
				sb.WriteString(n.text)
				sb.WriteByte('\n')
				continue
			}
			c := n.check
			checkPaths[c.ID]++
			if !seen[c.ID] {
				seen[c.ID] = true
				cs = append(cs, c)
				prefixes = append(prefixes, sb.String())
				if c.Cover {
					sb.WriteString(fmt.Sprintf("(set-option :timeout 1500)\n(push 1)\n(check-sat)\n(pop 1)\n(set-option :timeout %d)\n", cfg.PerCheckMs))
				} else {
					sb.WriteString("; check: " + c.Name + "\n(push 1)\n(assert (not " + c.Goal + "))\n(check-sat)\n(pop 1)\n")
				}
			}
			if !c.Cover && c.Kind != "callsonly" && c.Kind != "cancellable" && (c.Kind != "post" || strings.HasPrefix(c.Func, "lemma.")) {
				sb.WriteString("(assert " + c.Goal + ")\n")
			}
		}
		if len(cs) > 0 {
			jobs = append(jobs, job{sb.String(), cs, prefixes})
		}
	}
	axioms := e.axiomText()
	if os.Getenv("GOVC_TRACE") != "" {
		fmt.Fprintf(os.Stderr, "govc: %s: %d paths, %d solver jobs\n", rep.Key, len(e.paths), len(jobs))
	}
	results := map[int]*OblResult{}
	failedNames := map[string]bool{}
	var mu sync.Mutex
	var wg sync.WaitGroup
	sem := make(chan struct{}, cfg.Workers)
	ctx := context.Background()
	for ji, j := range jobs {
		wg.Add(1)
		sem <- struct{}{}
		go func(ji int, j job) {
			defer wg.Done()
			defer func() { <-sem }()
			full := hdr + e.strLitDecls(j.script+axioms) + axioms + j.script
			full = fixSubstr(full)
			debugDump(fmt.Sprintf("%s.path%d", rep.Key, ji), full)
			hard := cfg.PerCheckMs/1000*len(j.checks) + 30
			// stage 1: the same script without quantified assumptions (dropping assumptions is sound); most
			// obligations are ground consequences of the path and discharge at once. Stage 2 (the full script) runs
			// only if something is left.
			r := runSolver(ctx, "z3-new", stripQuantAssumptions(full), cfg.PerCheckMs, hard)
			mu.Lock()
			rep.SolverSecs["z3-new"] += r.Secs
			mu.Unlock()
			need := len(r.Answers) < len(j.checks)
			for i, c := range j.checks {
				if i < len(r.Answers) && !c.Cover && r.Answers[i] != "unsat" {
					need = true
				}
			}
			if need {
				r2 := runSolver(ctx, "z3-new", full, cfg.PerCheckMs, hard)
				mu.Lock()
				rep.SolverSecs["z3-new"] += r2.Secs
				mu.Unlock()
				for i := range j.checks {
					if i < len(r.Answers) && r.Answers[i] == "unsat" && !j.checks[i].Cover {
						if i < len(r2.Answers) {
							r2.Answers[i] = "unsat"
						}
					}
				}
				if len(r2.Answers) >= len(r.Answers) {
					r2.Secs += r.Secs
					r = r2
				}
			}
			for i, c := range j.checks {
				ans := "error"
				if i < len(r.Answers) {
					ans = r.Answers[i]
				}
				or := &OblResult{Name: c.Name, Kind: c.Kind, Func: c.Func, Clause: c.Clause, Pos: c.Pos, Tags: c.Tags, Answer: ans, Solver: "z3-new", Secs: r.Secs / float64(len(j.checks)), Bounded: c.Bounded}
				good := (c.Cover && (ans == "sat" || ans == "unknown")) || (!c.Cover && ans == "unsat")
				if c.Cover {
					// reachability probes are never escalated: unsat = unreachable, anything else = (possibly) reachable
					or.Status = "discharged"
					if ans == "unsat" || ans == "error" {
						or.Status = "failed"
					}
				} else if good {
					or.Status = "discharged"
					if cfg.Second && !c.Cover {
						q := hdr + e.strLitDecls(j.prefix[i]+c.Goal+axioms) + axioms + stripChecks(j.prefix[i]) + "(assert (not " + c.Goal + "))\n(check-sat)\n"
						q = fixSubstr(q)
						for _, s2 := range []string{"cvc5", "z3"} {
							r2 := runSolver(ctx, s2, q, cfg.PerCheckMs, cfg.PerCheckMs/1000+10)
							mu.Lock()
							rep.SolverSecs[s2] += r2.Secs
							mu.Unlock()
							if len(r2.Answers) > 0 && r2.Answers[0] == "unsat" {
								or.Second = s2
								break
							}
							if len(r2.Answers) > 0 && r2.Answers[0] == "sat" {
								or.Second = s2 + ":sat(DISAGREES)"
								or.Status = "failed"
								break
							}
						}
					}
				} else if func() bool { mu.Lock(); defer mu.Unlock(); return failedNames[c.Name] }() {
					or.Status = "undecided"
					or.Answer = ans + " (the same obligation already failed on another path; not escalated again)"
				} else {
					mu.Lock()
					failedNames[c.Name] = true
					mu.Unlock()
					// standalone portfolio run with model
					q := hdr + e.strLitDecls(j.prefix[i]+c.Goal+axioms) + axioms + stripChecks(j.prefix[i])
					if !c.Cover {
						q += "(assert (not " + c.Goal + "))\n"
					}
					q += "(check-sat)\n"
					q = fixSubstr(q)
					or.Query = q
					ans2, solver, model, secs := e.portfolio(ctx, q, cfg, rep, &mu)
					or.Answer = ans2
					or.Solver = solver
					or.Secs += secs
					or.Model = model
					switch {
					case !c.Cover && ans2 == "unsat":
						or.Status = "discharged"
					case c.Cover && (ans2 == "sat" || strings.HasPrefix(ans2, "unknown") || strings.HasPrefix(ans2, "timeout")):
						or.Status = "discharged"
					case !c.Cover && ans2 == "sat":
						or.Status = "failed"
					case c.Cover && ans2 == "unsat":
						or.Status = "failed"
					default:
						or.Status = "undecided"
					}
				}
				mu.Lock()
				results[c.ID] = or
				mu.Unlock()
			}
		}(ji, j)
	}
	wg.Wait()
	// merge by obligation name: an obligation holds iff it holds on every path
	byName := map[string]*OblResult{}
	var order []string
	add := func(or *OblResult) {
		if ex, ok := byName[or.Name]; ok {
			ex.Paths++
			ex.Secs += or.Secs
			if rank(or.Status) > rank(ex.Status) {
				ex.Status, ex.Answer, ex.Solver, ex.Model, ex.Query = or.Status, or.Answer, or.Solver, or.Model, or.Query
			}
			return
		}
		or.Paths = 1
		byName[or.Name] = or
		order = append(order, or.Name)
	}
	var ids []int
	for id := range results {
		ids = append(ids, id)
	}
	sort.Ints(ids)
	retFeasible := 0
	for _, id := range ids {
		or := results[id]
		if or.Kind == "vacuity" && strings.HasSuffix(or.Name, ".return") {
			// per-path reachability: count feasible return paths; infeasible ones are not failures
			if or.Answer != "unsat" {
				retFeasible++
			}
			continue
		}
		add(or)
	}
	for _, c := range e.trivial {
		if c.Cover {
			continue
		}
		add(&OblResult{Name: c.Name, Kind: c.Kind, Func: c.Func, Clause: c.Clause, Pos: c.Pos, Tags: c.Tags, Status: "trivial", Answer: "goal simplified to true", Bounded: c.Bounded})
	}
	rep.ReturnPaths = retFeasible
	for _, n := range order {
		or := byName[n]
		if or.Kind == "vacuity" && strings.HasSuffix(or.Name, ".pre") {
			rep.VacuityPre = or.Answer
		}
		rep.Obligations = append(rep.Obligations, or)
	}
	if retFeasible == 0 && len(e.unsupp) == 0 {
		rep.Obligations = append(rep.Obligations, &OblResult{Name: "vacuity." + rep.Key + ".paths", Kind: "vacuity", Func: rep.Key, Status: "failed", Answer: "no feasible return path: the contract is vacuous"})
	} else {
		rep.Obligations = append(rep.Obligations, &OblResult{Name: "vacuity." + rep.Key + ".paths", Kind: "vacuity", Func: rep.Key, Status: "discharged", Answer: fmt.Sprintf("%d feasible return paths", retFeasible)})
	}
}

// stripQuantAssumptions removes every quantified assumption (outside the push/pop blocks of the obligations).
func stripQuantAssumptions(script string) string {
	var sb strings.Builder
	inCheck := false
	for _, l := range strings.Split(script, "\n") {
		if l == "(push 1)" {
			inCheck = true
		} else if l == "(pop 1)" {
			inCheck = false
		} else if !inCheck && strings.HasPrefix(l, "(assert ") && (strings.Contains(l, "(forall ") || strings.Contains(l, "(exists ")) {
			continue
		}
		sb.WriteString(l)
		sb.WriteByte('\n')
	}
	return sb.String()
}

// stripChecks removes the push/check/pop blocks of earlier obligations from a script prefix.
func stripChecks(prefix string) string {
	var sb strings.Builder
	skip := false
	for _, l := range strings.Split(prefix, "\n") {
		switch {
		case l == "(push 1)":
			skip = true
		case l == "(pop 1)":
			skip = false
		case strings.HasPrefix(l, "(set-option :timeout"):
		case !skip:
			sb.WriteString(l + "\n")
		}
	}
	return sb.String()
}

func rank(s string) int {
	switch s {
	case "failed":
		return 3
	case "undecided":
		return 2
	case "discharged":
		return 1
	}
	return 0
}

var badPatTokens = []string{"(ite ", "(not ", "(and ", "(or ", "(=> ", "(= ", "(<= ", "(< ", "(>= ", "(> ", "(distinct "}

// sanitizePatterns drops explicit quantifier patterns that contain logical connectives (they arise when a merged
// value, an ite term, ends up inside a pattern); the solver then selects its own triggers.
func sanitizePatterns(s string) string {
	if !strings.Contains(s, ":pattern") {
		return s
	}
	lines := strings.Split(s, "\n")
	for li, l := range lines {
		for {
			i := strings.Index(l, ":pattern (")
			if i < 0 {
				break
			}
			// find the end of the pattern list
			d := 0
			j := i + len(":pattern ")
			end := -1
			for k := j; k < len(l); k++ {
				if l[k] == '(' {
					d++
				}
				if l[k] == ')' {
					d--
					if d == 0 {
						end = k
						break
					}
				}
			}
			if end < 0 {
				break
			}
			pat := l[j : end+1]
			bad := false
			for _, t := range badPatTokens {
				if strings.Contains(pat, t) {
					bad = true
					break
				}
			}
			if bad {
				l = l[:i] + ":qid govc_nopat" + l[end+1:]
			} else {
				l = l[:i] + ":PATTERN_OK " + l[i+len(":pattern "):]
			}
		}
		lines[li] = strings.ReplaceAll(l, ":PATTERN_OK ", ":pattern ")
	}
	return strings.Join(lines, "\n")
}

func fixSubstr(s string) string {
	s = sanitizePatterns(s)
	if i := strings.Index(s, "PREAMBLE"); i >= 0 {
		s = s[:i] + preambleFor(s[i+8:]) + s[i+8:]
	}
	if strings.Contains(s, "substr_u") && !strings.Contains(s, "(declare-fun substr_u") {
		s = strings.Replace(s, "(define-fun substr_ ", "(declare-fun substr_u (Str Int Int) Str)\n(define-fun substr_ ", 1)
	}
	return s
}

// portfolio races the three back ends on a single query and returns the first definitive answer.
func (e *Engine) portfolio(ctx context.Context, q string, cfg *RunCfg, rep *FuncReport, mu *sync.Mutex) (ans, solver, model string, secs float64) {
	type res struct {
		r SolverResult
	}
	var inputs strings.Builder
	for _, in := range e.inputs {
		fmt.Fprintf(&inputs, "(echo \"@%s\")\n(get-value (%s))\n", in.name, in.term)
	}
	qm := q + inputs.String()
	cctx, cancel := context.WithCancel(ctx)
	defer cancel()
	ch := make(chan SolverResult, 3)
	solvers := []string{"z3-new", "z3", "cvc5"}
	t0 := time.Now()
	for _, s := range solvers {
		go func(s string) {
			ch <- runSolver(cctx, s, qm, cfg.PerCheckMs, cfg.PerCheckMs/1000+10)
		}(s)
	}
	best := SolverResult{}
	bestAns := ""
	for i := 0; i < len(solvers); i++ {
		r := <-ch
		mu.Lock()
		rep.SolverSecs[r.Solver] += r.Secs
		mu.Unlock()
		a := "error"
		if len(r.Answers) > 0 {
			a = r.Answers[0]
		}
		if a == "unsat" || a == "sat" {
			best, bestAns = r, a
			break
		}
		if bestAns == "" || bestAns == "error" {
			best, bestAns = r, a
		}
	}
	cancel()
	model = ""
	if bestAns == "sat" {
		model = extractModel(best.Raw)
	} else if bestAns != "unsat" {
		// relaxed query: drop quantified assumptions to obtain a candidate model (to be confirmed by replay)
		var rl strings.Builder
		for _, l := range strings.Split(qm, "\n") {
			if strings.HasPrefix(l, "(assert (forall") || (strings.HasPrefix(l, "(assert (=>") && strings.Contains(l, "(forall")) || (strings.HasPrefix(l, "(assert (or") && strings.Contains(l, "(forall")) {
				continue
			}
			rl.WriteString(l + "\n")
		}
		r := runSolver(ctx, "z3-new", rl.String(), cfg.PerCheckMs, cfg.PerCheckMs/1000+10)
		if len(r.Answers) > 0 && r.Answers[0] == "sat" {
			model = extractModel(r.Raw)
			bestAns = bestAns + "+candidate-model(relaxed)"
		}
	}
	secs = time.Since(t0).Seconds()
	return bestAns, best.Solver, model, secs
}

func extractModel(raw string) string {
	var sb strings.Builder
	lines := strings.Split(raw, "\n")
	for i := 0; i < len(lines); i++ {
		l := strings.TrimSpace(lines[i])
		if strings.HasPrefix(l, "\"@") || strings.HasPrefix(l, "@") {
			name := strings.Trim(l, "\"")
			// value may span lines; take following lines until balanced
			val := ""
			depth := 0
			for j := i + 1; j < len(lines); j++ {
				val += strings.TrimSpace(lines[j]) + " "
				depth += strings.Count(lines[j], "(") - strings.Count(lines[j], ")")
				if depth <= 0 {
					i = j
					break
				}
			}
			sb.WriteString(name + " = " + strings.TrimSpace(val) + "\n")
		}
	}
	return sb.String()
}

func (e *Engine) axiomText() string {
	return e.axiomSMT
}

// prepareAxioms evaluates speclib axioms once into SMT text.
func (e *Engine) prepareAxioms() {
	e.resetFunc("<axioms>")
	st := &State{e: e, heaps: map[string]string{}, wmBase: "0", private: map[string]bool{}, iters: map[ssa.Value]*mapIter{}}
	fr := &Frame{regs: map[ssa.Value]Val{}, names: map[string]Val{}, nameAddr: map[string]bool{}, cut: map[*ssa.BasicBlock]bool{}, unrolled: map[*ssa.BasicBlock]int{}}
	st.frames = []*Frame{fr}
	var sb strings.Builder
	for _, f := range e.files {
		for _, ax := range f.Axioms {
			env := &cenv{vars: map[string]Val{}, lets: map[string]*CExpr{}, pkgPath: f.PkgPath, imports: f.Imports}
			st.quant++ // no defines: axioms must be closed terms
			t, err := e.evalBool(st, env, ax.Expr)
			st.quant--
			if err != nil {
				fmt.Fprintf(os.Stderr, "govc: axiom %s: %v\n", ax.Where, err)
				e.axiomErrors = append(e.axiomErrors, fmt.Sprintf("%s: %v", ax.Where, err))
				continue
			}
			sb.WriteString("(assert " + t + ")\n")
			e.axiomCount++
		}
	}
	e.axiomSMT = sb.String()
}
