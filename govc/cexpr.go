package main

// Contract expression language: lexer + Pratt parser.
// Grammar (loosest to tightest):
//   quant  := ('forall'|'exists') ident type {',' ident type} '::' expr
//   expr   := iff
//   iff    := imp { '<==>' imp }
//   imp    := or [ '==>' imp ]            (right assoc)
//   or     := and { '||' and }
//   and    := cmp { '&&' cmp }
//   cmp    := add [ ('=='|'!='|'<'|'<='|'>'|'>='|'in') add ]
//   add    := mul { ('+'|'-') mul }
//   mul    := unary { ('*'|'/'|'%') unary }
//   unary  := ('!'|'-'|'*'|'&') unary | postfix
//   postfix:= primary { '.' ident | '[' expr [':' expr] ']' | '(' args ')' }
//   primary:= ident | int | string | '(' expr ')' | quant

import (
	"fmt"
	"strconv"
	"strings"
	"unicode"
)

type CExpr struct {
	Op   string   // "id","int","str","call","field","index","slice","un","bin","forall","exists","old"
	Name string   // identifier / field name / operator
	Args []*CExpr // operands
	Vars []CVar   // quantifier binders
	Int  string
	Pos  string
}

type CVar struct {
	Name string
	Type string
}

func (e *CExpr) String() string {
	if e == nil {
		return "<nil>"
	}
	switch e.Op {
	case "id":
		return e.Name
	case "int":
		return e.Int
	case "str":
		return strconv.Quote(e.Name)
	case "call":
		var a []string
		for _, x := range e.Args[1:] {
			a = append(a, x.String())
		}
		return e.Args[0].String() + "(" + strings.Join(a, ", ") + ")"
	case "field":
		return e.Args[0].String() + "." + e.Name
	case "index":
		return e.Args[0].String() + "[" + e.Args[1].String() + "]"
	case "slice":
		lo, hi := "", ""
		if e.Args[1] != nil {
			lo = e.Args[1].String()
		}
		if e.Args[2] != nil {
			hi = e.Args[2].String()
		}
		return e.Args[0].String() + "[" + lo + ":" + hi + "]"
	case "un":
		return e.Name + e.Args[0].String()
	case "bin":
		return "(" + e.Args[0].String() + " " + e.Name + " " + e.Args[1].String() + ")"
	case "forall", "exists":
		var v []string
		for _, x := range e.Vars {
			v = append(v, x.Name+" "+x.Type)
		}
		return "(" + e.Op + " " + strings.Join(v, ", ") + " :: " + e.Args[0].String() + ")"
	}
	return "?"
}

type tok struct {
	k string // "id","int","str","op","eof"
	s string
}

func lexC(s string) ([]tok, error) {
	var out []tok
	i := 0
	for i < len(s) {
		c := s[i]
		switch {
		case c == ' ' || c == '\t':
			i++
		case unicode.IsLetter(rune(c)) || c == '_':
			j := i
			for j < len(s) && (unicode.IsLetter(rune(s[j])) || unicode.IsDigit(rune(s[j])) || s[j] == '_') {
				j++
			}
			out = append(out, tok{"id", s[i:j]})
			i = j
		case c >= '0' && c <= '9':
			j := i
			for j < len(s) && (unicode.IsDigit(rune(s[j])) || unicode.IsLetter(rune(s[j])) || s[j] == '_') {
				j++
			}
			out = append(out, tok{"int", s[i:j]})
			i = j
		case c == '"':
			j := i + 1
			for j < len(s) && s[j] != '"' {
				if s[j] == '\\' {
					j++
				}
				j++
			}
			if j >= len(s) {
				return nil, fmt.Errorf("unterminated string")
			}
			u, err := strconv.Unquote(s[i : j+1])
			if err != nil {
				return nil, err
			}
			out = append(out, tok{"str", u})
			i = j + 1
		default:
			ops := []string{"<==>", "==>", "::", "==", "!=", "<=", ">=", "&&", "||", "<<", ">>", ":="}
			matched := false
			for _, o := range ops {
				if strings.HasPrefix(s[i:], o) {
					out = append(out, tok{"op", o})
					i += len(o)
					matched = true
					break
				}
			}
			if !matched {
				if strings.ContainsRune("+-*/%!<>()[].,:&@", rune(c)) {
					out = append(out, tok{"op", string(c)})
					i++
				} else {
					return nil, fmt.Errorf("bad character %q in %q", c, s)
				}
			}
		}
	}
	out = append(out, tok{"eof", ""})
	return out, nil
}

type cparser struct {
	t []tok
	p int
}

func (p *cparser) peek() tok { return p.t[p.p] }
func (p *cparser) next() tok { t := p.t[p.p]; p.p++; return t }
func (p *cparser) isOp(s string) bool {
	return p.t[p.p].k == "op" && p.t[p.p].s == s
}
func (p *cparser) expectOp(s string) error {
	if !p.isOp(s) {
		return fmt.Errorf("expected %q, got %q", s, p.peek().s)
	}
	p.p++
	return nil
}

func parseCExpr(s string) (*CExpr, error) {
	toks, err := lexC(s)
	if err != nil {
		return nil, err
	}
	p := &cparser{t: toks}
	e, err := p.expr()
	if err != nil {
		return nil, fmt.Errorf("%v in %q", err, s)
	}
	if p.peek().k != "eof" {
		return nil, fmt.Errorf("trailing %q in %q", p.peek().s, s)
	}
	return e, nil
}

func (p *cparser) expr() (*CExpr, error) { return p.iff() }

func (p *cparser) iff() (*CExpr, error) {
	l, err := p.imp()
	if err != nil {
		return nil, err
	}
	for p.isOp("<==>") {
		p.p++
		r, err := p.imp()
		if err != nil {
			return nil, err
		}
		l = &CExpr{Op: "bin", Name: "<==>", Args: []*CExpr{l, r}}
	}
	return l, nil
}

func (p *cparser) imp() (*CExpr, error) {
	l, err := p.or()
	if err != nil {
		return nil, err
	}
	if p.isOp("==>") {
		p.p++
		r, err := p.imp()
		if err != nil {
			return nil, err
		}
		return &CExpr{Op: "bin", Name: "==>", Args: []*CExpr{l, r}}, nil
	}
	return l, nil
}

func (p *cparser) or() (*CExpr, error) {
	l, err := p.and()
	if err != nil {
		return nil, err
	}
	for p.isOp("||") {
		p.p++
		r, err := p.and()
		if err != nil {
			return nil, err
		}
		l = &CExpr{Op: "bin", Name: "||", Args: []*CExpr{l, r}}
	}
	return l, nil
}

func (p *cparser) and() (*CExpr, error) {
	l, err := p.cmp()
	if err != nil {
		return nil, err
	}
	for p.isOp("&&") {
		p.p++
		r, err := p.cmp()
		if err != nil {
			return nil, err
		}
		l = &CExpr{Op: "bin", Name: "&&", Args: []*CExpr{l, r}}
	}
	return l, nil
}

func (p *cparser) cmp() (*CExpr, error) {
	l, err := p.add()
	if err != nil {
		return nil, err
	}
	for {
		t := p.peek()
		if t.k == "op" && (t.s == "==" || t.s == "!=" || t.s == "<" || t.s == "<=" || t.s == ">" || t.s == ">=") {
			p.p++
			r, err := p.add()
			if err != nil {
				return nil, err
			}
			l = &CExpr{Op: "bin", Name: t.s, Args: []*CExpr{l, r}}
			continue
		}
		if t.k == "id" && t.s == "in" {
			p.p++
			r, err := p.add()
			if err != nil {
				return nil, err
			}
			l = &CExpr{Op: "bin", Name: "in", Args: []*CExpr{l, r}}
			continue
		}
		return l, nil
	}
}

func (p *cparser) add() (*CExpr, error) {
	l, err := p.mul()
	if err != nil {
		return nil, err
	}
	for p.isOp("+") || p.isOp("-") {
		o := p.next().s
		r, err := p.mul()
		if err != nil {
			return nil, err
		}
		l = &CExpr{Op: "bin", Name: o, Args: []*CExpr{l, r}}
	}
	return l, nil
}

func (p *cparser) mul() (*CExpr, error) {
	l, err := p.unary()
	if err != nil {
		return nil, err
	}
	for p.isOp("*") || p.isOp("/") || p.isOp("%") || p.isOp("<<") || p.isOp(">>") {
		o := p.next().s
		r, err := p.unary()
		if err != nil {
			return nil, err
		}
		l = &CExpr{Op: "bin", Name: o, Args: []*CExpr{l, r}}
	}
	return l, nil
}

func (p *cparser) unary() (*CExpr, error) {
	if p.isOp("!") || p.isOp("-") || p.isOp("*") || p.isOp("&") {
		o := p.next().s
		x, err := p.unary()
		if err != nil {
			return nil, err
		}
		return &CExpr{Op: "un", Name: o, Args: []*CExpr{x}}, nil
	}
	return p.postfix()
}

func (p *cparser) postfix() (*CExpr, error) {
	x, err := p.primary()
	if err != nil {
		return nil, err
	}
	for {
		switch {
		case p.isOp("."):
			p.p++
			t := p.next()
			if t.k != "id" {
				return nil, fmt.Errorf("expected field name after '.'")
			}
			x = &CExpr{Op: "field", Name: t.s, Args: []*CExpr{x}}
		case p.isOp("["):
			p.p++
			var lo, hi *CExpr
			isSlice := false
			if !p.isOp(":") {
				lo, err = p.expr()
				if err != nil {
					return nil, err
				}
			}
			if p.isOp(":") {
				isSlice = true
				p.p++
				if !p.isOp("]") {
					hi, err = p.expr()
					if err != nil {
						return nil, err
					}
				}
			}
			if err := p.expectOp("]"); err != nil {
				return nil, err
			}
			if isSlice {
				x = &CExpr{Op: "slice", Args: []*CExpr{x, lo, hi}}
			} else {
				x = &CExpr{Op: "index", Args: []*CExpr{x, lo}}
			}
		case p.isOp("("):
			p.p++
			args := []*CExpr{x}
			for !p.isOp(")") {
				a, err := p.expr()
				if err != nil {
					return nil, err
				}
				args = append(args, a)
				if p.isOp(",") {
					p.p++
				} else if !p.isOp(")") {
					return nil, fmt.Errorf("expected , or ) in call, got %q", p.peek().s)
				}
			}
			p.p++
			x = &CExpr{Op: "call", Args: args}
		default:
			return x, nil
		}
	}
}

// typeText parses a type up to (but excluding) ',' or '::' at nesting depth 0.
func (p *cparser) typeText() string {
	var sb strings.Builder
	depth := 0
	for {
		t := p.peek()
		if t.k == "eof" {
			break
		}
		if t.k == "op" {
			if depth == 0 && (t.s == "," || t.s == "::") {
				break
			}
			if t.s == "(" || t.s == "[" {
				depth++
			}
			if t.s == ")" || t.s == "]" {
				depth--
			}
		}
		sb.WriteString(t.s)
		p.p++
	}
	return sb.String()
}

func (p *cparser) primary() (*CExpr, error) {
	t := p.next()
	switch t.k {
	case "id":
		if t.s == "forall" || t.s == "exists" {
			var vars []CVar
			for {
				n := p.next()
				if n.k != "id" {
					return nil, fmt.Errorf("expected binder name")
				}
				ty := p.typeText()
				vars = append(vars, CVar{n.s, ty})
				if p.isOp(",") {
					p.p++
					continue
				}
				break
			}
			if err := p.expectOp("::"); err != nil {
				return nil, err
			}
			body, err := p.expr()
			if err != nil {
				return nil, err
			}
			return &CExpr{Op: t.s, Vars: vars, Args: []*CExpr{body}}, nil
		}
		return &CExpr{Op: "id", Name: t.s}, nil
	case "int":
		return &CExpr{Op: "int", Int: t.s}, nil
	case "str":
		return &CExpr{Op: "str", Name: t.s}, nil
	case "op":
		if t.s == "(" {
			e, err := p.expr()
			if err != nil {
				return nil, err
			}
			if err := p.expectOp(")"); err != nil {
				return nil, err
			}
			return e, nil
		}
	}
	return nil, fmt.Errorf("unexpected token %q", t.s)
}
