package liveness

// Replay harness for C18 (injected with go test -overlay; never written into /repo).
// Builds the real cached tester from configurations with a capacity configured and checks that the corresponding
// cache never holds more entries than that capacity after more distinct verdicts than the capacity.

import (
	"fmt"
	"testing"
)

func TestVerifReplay(t *testing.T) {
	type tc struct {
		conf    Config
		live    bool
		capName string
		cap     int
	}
	cases := []tc{
		{Config{CacheDurationNonLive: "1h", CacheCapacityNonLive: 2}, false, "cache_capacity_nonlive", 2},
		{Config{CacheDuration: "1h", CacheCapacity: 2}, true, "cache_capacity", 2},
		{Config{CacheDuration: "1h", CacheCapacity: 5, CacheDurationNonLive: "1h", CacheCapacityNonLive: 2}, false, "cache_capacity_nonlive", 2},
		{Config{CacheDuration: "1h", CacheCapacity: 2, CacheDurationNonLive: "1h", CacheCapacityNonLive: 5}, true, "cache_capacity", 2},
	}
	for _, c := range cases {
		blt := &CachedLivenessTester{stats: &stats{}}
		conf := c.conf
		if err := blt.Init(&conf); err != nil {
			continue
		}
		verdict := c.live
		blt.phantomIsLive = func(string) (bool, error) { return verdict, nil }
		for i := 0; i < 6; i++ {
			blt.PhantomIsLive(fmt.Sprintf("192.0.2.%d", i+1), 443)
		}
		var ch cache = blt.ipCacheNonLive
		if c.live {
			ch = blt.ipCacheLive
		}
		if ch == nil {
			continue
		}
		if n := ch.Len(); n > c.cap {
			fmt.Printf("REPRODUCED: with %s = %d configured (%+v) the cache holds %d entries after 6 distinct verdicts\n", c.capName, c.cap, c.conf, n)
			t.Fail()
			return
		}
	}
	fmt.Println("NOT-REPRODUCED")
}
