package main

// Replay harness for C17 (injected with go test -overlay; never written into /repo): the accept-side wrapper
// handleNewConn when the connection's descriptor cannot be duplicated (descriptor exhaustion: EMFILE). (*net.TCPConn).File
// then fails with a *net.OpError whose text names both endpoints; the line the wrapper logs must not contain the
// client's address.

import (
	"bytes"
	"fmt"
	"net"
	"os"
	"strings"
	"syscall"
	"testing"

	"github.com/refraction-networking/conjure/pkg/station/log"
)

func TestVerifReplayAccept(t *testing.T) {
	ln, err := net.ListenTCP("tcp", &net.TCPAddr{IP: net.ParseIP("127.0.0.1")})
	if err != nil {
		fmt.Println("NOT-REPRODUCED (cannot listen):", err)
		return
	}
	defer ln.Close()
	client, err := net.Dial("tcp", ln.Addr().String())
	if err != nil {
		fmt.Println("NOT-REPRODUCED (cannot dial):", err)
		return
	}
	defer client.Close()
	srv, err := ln.AcceptTCP()
	if err != nil {
		fmt.Println("NOT-REPRODUCED (cannot accept):", err)
		return
	}
	clientAddr := client.LocalAddr().String() // as the station sees it: the connection's remote address

	var buf bytes.Buffer
	old := sharedLogger
	sharedLogger = log.New(&buf, "[TEST] ", 0)
	defer func() { sharedLogger = old }()

	// descriptor exhaustion: lower the soft limit to the number of descriptors in use
	var lim syscall.Rlimit
	if err := syscall.Getrlimit(syscall.RLIMIT_NOFILE, &lim); err != nil {
		fmt.Println("NOT-REPRODUCED (getrlimit):", err)
		return
	}
	ents, _ := os.ReadDir("/proc/self/fd")
	low := lim
	low.Cur = uint64(len(ents)) - 1 // ReadDir's own descriptor is closed again
	if low.Cur < 3 {
		low.Cur = 3
	}
	if err := syscall.Setrlimit(syscall.RLIMIT_NOFILE, &low); err != nil {
		fmt.Println("NOT-REPRODUCED (setrlimit):", err)
		return
	}
	cm := newConnManager(nil)
	cm.handleNewConn(nil, srv)
	_ = syscall.Setrlimit(syscall.RLIMIT_NOFILE, &lim)

	out := buf.String()
	host, _, _ := net.SplitHostPort(clientAddr)
	if strings.Contains(out, clientAddr) || (strings.Contains(out, "failed to get file descriptor") && strings.Contains(out, host+":")) {
		fmt.Printf("REPRODUCED: with no free descriptor handleNewConn logs the client's address %s (client address logging is not enabled): %q\n", clientAddr, strings.TrimSpace(out))
		t.Fail()
		return
	}
	fmt.Printf("NOT-REPRODUCED (log output: %q)\n", strings.TrimSpace(out))
}
