package main

// Replay harness for C17 (injected with go test -overlay; never written into /repo): errors as the network stack
// returns them (*net.OpError with both endpoint addresses) for errnos outside the enumerated list, IPv4 and IPv6
// clients; the generalised error text must not contain the client address.

import (
	"fmt"
	"net"
	"os"
	"strings"
	"syscall"
	"testing"
)

func TestVerifReplay(t *testing.T) {
	clients := []string{"203.0.113.77", "2001:db8::7"}
	inner := []error{syscall.ENETUNREACH, syscall.ENOBUFS, syscall.ENETDOWN, syscall.ETIMEDOUT, syscall.EAGAIN, os.NewSyscallError("read", syscall.ENOTCONN), os.ErrDeadlineExceeded, syscall.ECONNRESET, syscall.EHOSTUNREACH}
	for _, c := range clients {
		for _, in := range inner {
			e := &net.OpError{Op: "read", Net: "tcp", Source: &net.TCPAddr{IP: net.ParseIP("192.122.190.5"), Port: 443}, Addr: &net.TCPAddr{IP: net.ParseIP(c), Port: 41245}, Err: in}
			g := generalizeErr(e)
			if g != nil && strings.Contains(g.Error(), c) {
				fmt.Printf("REPRODUCED: generalizeErr(%T wrapping %v) = %q still contains the client address %s\n", e, in, g.Error(), c)
				t.Fail()
				return
			}
		}
	}
	fmt.Println("NOT-REPRODUCED")
}
