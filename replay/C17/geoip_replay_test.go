package geoip

// Replay harness for C17 (injected with go test -overlay; never written into /repo): GeoIP lookup errors.
// Builds a minimal, valid, IPv4-only MaxMind country database and looks an IPv6 client address up in it: the reader's
// error text embeds the looked-up address, and the connection handler logs that error at Error level.

import (
	"fmt"
	"net"
	"os"
	"path/filepath"
	"strings"
	"testing"
)

func mmStr(s string) []byte { return append([]byte{byte(2<<5 | len(s))}, s...) }

func ipv4OnlyCountryDB() []byte {
	var b []byte
	// search tree: one node, both 24-bit records = node_count (1) = "no data"
	b = append(b, 0, 0, 1, 0, 0, 1)
	b = append(b, make([]byte, 16)...) // data section separator; empty data section
	b = append(b, "\xab\xcd\xefMaxMind.com"...)
	b = append(b, 7<<5|9) // metadata map, 9 pairs
	b = append(b, mmStr("binary_format_major_version")...)
	b = append(b, 5<<5|1, 2)
	b = append(b, mmStr("binary_format_minor_version")...)
	b = append(b, 5<<5|0)
	b = append(b, mmStr("build_epoch")...)
	b = append(b, 0<<5|1, 2, 1) // extended type 9 (uint64), one byte
	b = append(b, mmStr("database_type")...)
	b = append(b, mmStr("GeoLite2-Country")...)
	b = append(b, mmStr("description")...)
	b = append(b, 7<<5|0)
	b = append(b, mmStr("ip_version")...)
	b = append(b, 5<<5|1, 4)
	b = append(b, mmStr("languages")...)
	b = append(b, 0<<5|0, 4) // extended type 11 (array), empty
	b = append(b, mmStr("node_count")...)
	b = append(b, 6<<5|1, 1)
	b = append(b, mmStr("record_size")...)
	b = append(b, 5<<5|1, 24)
	return b
}

func TestVerifReplay(t *testing.T) {
	p := filepath.Join(t.TempDir(), "v4only-Country.mmdb")
	if err := os.WriteFile(p, ipv4OnlyCountryDB(), 0o644); err != nil {
		t.Fatal(err)
	}
	db, err := New(&DBConfig{CCDBPath: p})
	if err != nil && db == nil {
		fmt.Printf("NOT-REPRODUCED (could not open the generated database: %v)\n", err)
		return
	}
	client := net.ParseIP("2001:db8:17::beef")
	_, err = db.CC(client)
	if err != nil && strings.Contains(err.Error(), "2001:db8:17::beef") {
		fmt.Printf("REPRODUCED: geoip CC(%v) on an IPv4-only country database returns an error whose text contains the client address: %q; cmd/application handleNewTCPConn logs it with logger.Errorln(\"Failed to get CC:\", err) whatever LOG_CLIENT_IP says\n", client, err.Error())
		t.Fail()
		return
	}
	fmt.Printf("NOT-REPRODUCED (err=%v)\n", err)
}
