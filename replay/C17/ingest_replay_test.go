package lib

// Replay harness for C17 (injected with go test -overlay; never written into /repo): registration ingest.
// Ingests a registration whose covert address the policy rejects, at the station's default log level ("error"),
// and looks for the registrant's (client's) address in what the registration manager's logger wrote.

import (
	"bytes"
	"fmt"
	golog "log"
	"net"
	"os"
	"strings"
	"testing"

	"github.com/refraction-networking/conjure/pkg/station/log"
	pb "github.com/refraction-networking/conjure/proto"
)

func TestVerifReplayIngest(t *testing.T) {
	os.Setenv("PHANTOM_SUBNET_LOCATION", "./test/phantom_subnets.toml")
	rm := NewRegistrationManager(&RegConfig{CovertBlocklistSubnets: []string{"127.0.0.0/8"}})
	if err := rm.ParseBlocklists(); err != nil {
		fmt.Printf("NOT-REPRODUCED (setup: %v)\n", err)
		return
	}
	if err := rm.AddTransport(0, &mockTransport{}); err != nil {
		fmt.Printf("NOT-REPRODUCED (setup: %v)\n", err)
		return
	}
	var out bytes.Buffer
	rm.Logger = log.New(&out, "[REG] ", golog.Ldate)
	rm.Logger.SetLevel(log.ErrorLevel) // the shipped default: log_level = "error"

	c2s, keys := mockReceiveFromDetector()
	covert := "127.0.0.1:80" // rejected by the covert policy
	c2s.CovertAddress = &covert
	src := pb.RegistrationSource_API
	reg, err := rm.NewRegistration(c2s, &keys, false, &src)
	if err != nil {
		fmt.Printf("NOT-REPRODUCED (setup: %v)\n", err)
		return
	}
	client := "203.0.113.77"
	reg.registrationAddr = net.ParseIP(client)
	rm.ingestRegistration(reg)
	if strings.Contains(out.String(), client) {
		fmt.Printf("REPRODUCED: at log level \"error\" (the default) ingestRegistration wrote the registrant's address %s to the log: %q\n", client, strings.TrimSpace(out.String()))
		t.Fail()
		return
	}
	fmt.Printf("NOT-REPRODUCED (log: %q)\n", out.String())
}
