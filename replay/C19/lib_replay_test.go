package lib

// Replay harness for C19 (injected with go test -overlay; never written into /repo): configuration loading.

import (
	"fmt"
	"os"
	"path/filepath"
	"testing"
)

func loadWith(t *testing.T, content string) (c *Config, err error, panicked interface{}) {
	f := filepath.Join(t.TempDir(), "conf.toml")
	os.WriteFile(f, []byte(content), 0644)
	os.Setenv("CJ_STATION_CONFIG", f)
	defer func() { panicked = recover() }()
	c, err = ParseConfig()
	return
}

func TestVerifReplay(t *testing.T) {
	// 1. a syntactically valid file without any registration key
	if _, err, p := loadWith(t, "log_level = \"error\"\n"); p != nil {
		fmt.Printf("REPRODUCED: ParseConfig panics (%v) for a valid TOML file without registration keys; on SIGHUP this kills the running station (err=%v)\n", p, err)
		t.Fail()
		return
	}
	// 2. an unparsable blocklist entry must make the load fail
	for _, bad := range []string{"covert_blocklist_subnets = [\"127.0.0.1/32\", \"fc00::/7 \"]\n", "phantom_blocklist = [\"10.0.0.0/33\"]\n", "covert_allowlist_subnets = [\"nonsense\"]\n"} {
		c, err, p := loadWith(t, "enable_v4 = true\n"+bad)
		if p != nil {
			fmt.Printf("REPRODUCED: ParseConfig panics (%v) for %q\n", p, bad)
			t.Fail()
			return
		}
		if err == nil && c != nil {
			fmt.Printf("REPRODUCED: configuration %q was accepted although an entry cannot be parsed: enforced lists covert=%d phantom=%d allow=%d (entry dropped silently)\n", bad, len(c.covertBlocklistSubnets), len(c.phantomBlocklist), len(c.covertAllowlistSubnets))
			t.Fail()
			return
		}
	}
	// 3. a malformed domain pattern must be an error, not a panic
	if _, err, p := loadWith(t, "enable_v4 = true\ncovert_blocklist_domains = [\"(\"]\n"); p != nil || err == nil {
		fmt.Printf("REPRODUCED: malformed covert_blocklist_domains pattern: panic=%v err=%v\n", p, err)
		t.Fail()
		return
	}
	fmt.Println("NOT-REPRODUCED")
}
