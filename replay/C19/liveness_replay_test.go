package liveness

// Replay harness for C19 (statistics reporting for every accepted liveness configuration).

import (
	"fmt"
	"os"
	"testing"

	"github.com/refraction-networking/conjure/pkg/station/log"
)

func TestVerifReplay(t *testing.T) {
	confs := []Config{{}, {CacheDuration: "1h"}, {CacheDurationNonLive: "1h"}, {CacheDuration: "1h", CacheDurationNonLive: "1h"},
		{CacheDuration: "1h", CacheCapacity: 3}, {CacheDurationNonLive: "1h", CacheCapacityNonLive: 3}, {CacheDuration: "1h", CacheCapacity: 3, CacheDurationNonLive: "1h"}}
	logger := log.New(os.Stdout, "", 0)
	for _, c := range confs {
		conf := c
		blt := &CachedLivenessTester{stats: &stats{}}
		if err := blt.Init(&conf); err != nil {
			continue
		}
		func() {
			defer func() {
				if p := recover(); p != nil {
					fmt.Printf("REPRODUCED: statistics reporting panics (%v) for the accepted liveness configuration %+v\n", p, c)
					t.Fail()
				}
			}()
			blt.PrintAndReset(logger)
			blt.ClearExpiredCache()
		}()
		if t.Failed() {
			return
		}
	}
	fmt.Println("NOT-REPRODUCED")
}
