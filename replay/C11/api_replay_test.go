package apiregserver

// Replay harness for C11 (injected with go test -overlay; never written into /repo): HTTP registration handlers.
// Sends structurally valid requests with absent sub-messages / odd headers to the real handlers and reports a panic
// (net/http would recover it and close the connection without a status line) or a missing status line.

import (
	"bytes"
	"fmt"
	"net/http"
	"net/http/httptest"
	"testing"
	"time"

	"github.com/refraction-networking/conjure/pkg/metrics"
	pb "github.com/refraction-networking/conjure/proto"
	log "github.com/sirupsen/logrus"
	"google.golang.org/protobuf/proto"
)

type replayRegistrar struct{}

func (replayRegistrar) RegisterUnidirectional(*pb.C2SWrapper, pb.RegistrationSource, []byte) error {
	return nil
}
func (replayRegistrar) RegisterBidirectional(*pb.C2SWrapper, pb.RegistrationSource, []byte) (*pb.RegistrationResponse, error) {
	return &pb.RegistrationResponse{}, nil
}

type statusRecorder struct {
	*httptest.ResponseRecorder
	wrote bool
}

func (s *statusRecorder) WriteHeader(c int)           { s.wrote = true; s.ResponseRecorder.WriteHeader(c) }
func (s *statusRecorder) Write(b []byte) (int, error) { s.wrote = true; return s.ResponseRecorder.Write(b) }

func TestVerifReplay(t *testing.T) {
	lg := log.New()
	lg.SetLevel(log.PanicLevel)
	gen := uint32(1000)
	s := APIRegServer{logger: lg, logClientIP: true, processor: replayRegistrar{},
		latestClientConf: &pb.ClientConf{Generation: &gen},
		metrics:          metrics.NewMetrics(log.NewEntry(lg), time.Hour)}
	secret := bytes.Repeat([]byte{7}, 32)
	zero := uint32(0)
	bodies := map[string]*pb.C2SWrapper{
		"wrapper without registration payload": {SharedSecret: secret},
		"payload with generation 0":            {SharedSecret: secret, RegistrationPayload: &pb.ClientToStation{DecoyListGeneration: &zero}},
		"empty payload":                        {SharedSecret: secret, RegistrationPayload: &pb.ClientToStation{}},
	}
	type hdr struct{ remote, xff string }
	hdrs := []hdr{{"10.0.0.1:555", ""}, {"127.0.0.1:555", "1.2.3.4"}, {"127.0.0.1:555", ""}, {"[::1]:555", "1.2.3.4, 5.6.7.8"}, {"127.0.0.1:555", ","}, {"bogus", "x"}}
	for name, m := range bodies {
		raw, _ := proto.Marshal(m)
		for _, h := range hdrs {
			for hn, handler := range map[string]func(http.ResponseWriter, *http.Request){"register": s.register, "registerBidirectional": s.registerBidirectional} {
				r := httptest.NewRequest("POST", "/x", bytes.NewReader(raw))
				r.RemoteAddr = h.remote
				if h.xff != "" {
					r.Header.Add("X-Forwarded-For", h.xff)
				}
				w := &statusRecorder{ResponseRecorder: httptest.NewRecorder()}
				var p interface{}
				func() {
					defer func() { p = recover() }()
					handler(w, r)
				}()
				if p != nil {
					fmt.Printf("REPRODUCED: %s panics (%v) for a POST with %s, RemoteAddr=%q X-Forwarded-For=%q; net/http recovers the panic and closes the connection, so the request gets no status line\n", hn, p, name, h.remote, h.xff)
					t.Fail()
					return
				}
				if !w.wrote {
					fmt.Printf("REPRODUCED: %s returned without a status line for %s, RemoteAddr=%q X-Forwarded-For=%q\n", hn, name, h.remote, h.xff)
					t.Fail()
					return
				}
			}
		}
	}
	fmt.Println("NOT-REPRODUCED")
}
