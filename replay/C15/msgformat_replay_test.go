package msgformat

// Replay harness (injected with go test -overlay by /verif/bin/govc check; never written into /repo).
// Runs the real encoder/decoder pair on the input of the verifier's counterexample and evaluates the
// round-trip property of C15.

import (
	"bytes"
	"encoding/json"
	"fmt"
	"os"
	"strconv"
	"strings"
	"testing"
)

type replayFile struct {
	Obligation string            `json:"obligation"`
	Function   string            `json:"function"`
	Model      map[string]string `json:"model"`
}

func loadReplay(t *testing.T) *replayFile {
	b, err := os.ReadFile(os.Getenv("GOVC_REPLAY"))
	if err != nil {
		t.Skip("no replay file")
	}
	var r replayFile
	if err := json.Unmarshal(b, &r); err != nil {
		t.Fatal(err)
	}
	return &r
}

func (r *replayFile) intOf(name string, def int) int {
	v, ok := r.Model[name]
	if !ok {
		return def
	}
	n, err := strconv.Atoi(strings.TrimSpace(v))
	if err != nil {
		return def
	}
	return n
}

func TestVerifReplay(t *testing.T) {
	r := loadReplay(t)
	n := r.intOf("p.len", -1)
	var lens []int
	if n >= 0 && n <= 1<<24 {
		lens = append(lens, n)
	} else {
		// no usable model: try the boundary lengths of both framings
		lens = []int{0, 1, 255, 256, 257, 65535, 65536, 65537}
	}
	for _, n := range lens {
		p := make([]byte, n)
		for i := range p {
			p[i] = byte(i*7 + 3)
		}
		type pair struct {
			name string
			add  func([]byte) ([]byte, error)
			rem  func([]byte) ([]byte, error)
		}
		for _, pr := range []pair{{"Request", AddRequestFormat, RemoveRequestFormat}, {"Response", AddResponseFormat, RemoveResponseFormat}} {
			if !strings.Contains(r.Obligation, pr.name) && !strings.Contains(strings.ToLower(r.Obligation), strings.ToLower(pr.name)) {
				continue
			}
			e, err := pr.add(p)
			if err != nil {
				continue // rejected with an error: allowed
			}
			d, err := pr.rem(e)
			if err != nil || !bytes.Equal(d, p) {
				fmt.Printf("REPRODUCED: %sFormat round trip fails for len(p)=%d: decoded len=%d err=%v\n", pr.name, n, len(d), err)
				t.Fail()
				return
			}
		}
	}
	fmt.Println("NOT-REPRODUCED")
}
