package transports

// Replay harness for C15 (injected with go test -overlay; never written into /repo): keyed tag obfuscators.
// Round trip Obfuscate -> TryReveal for the GCM and CTR obfuscators over every tag length 0..96 and several key pairs.

import (
	"bytes"
	"crypto/rand"
	"fmt"
	"testing"

	"golang.org/x/crypto/curve25519"
)

func TestVerifReplayKeyed(t *testing.T) {
	for name, o := range map[string]Obfuscator{"GCMObfuscator": GCMObfuscator{}, "CTRObfuscator": CTRObfuscator{}} {
		for k := 0; k < 3; k++ {
			var priv [32]byte
			_, _ = rand.Read(priv[:])
			pub, err := curve25519.X25519(priv[:], curve25519.Basepoint)
			if err != nil {
				continue
			}
			for n := 0; n <= 96; n++ {
				tag := bytes.Repeat([]byte{byte(n)}, n)
				enc, err := o.Obfuscate(tag, pub)
				if err != nil {
					continue // rejected by the encoder: allowed
				}
				dec, err := o.TryReveal(enc, priv)
				if err != nil || !bytes.Equal(dec, tag) {
					fmt.Printf("REPRODUCED: %s: Obfuscate accepted a %d-byte tag (encoding of %d bytes) but TryReveal returned (%d bytes, err=%v)\n", name, n, len(enc), len(dec), err)
					t.Fail()
					return
				}
			}
		}
	}
	fmt.Println("NOT-REPRODUCED")
}
