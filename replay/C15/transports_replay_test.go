package transports

// Replay harness for the tag obfuscators (C15): run the real Obfuscate/TryReveal pair on the model's input.

import (
	"bytes"
	"encoding/json"
	"fmt"
	"os"
	"strconv"
	"strings"
	"testing"
)

type replayFile struct {
	Obligation string            `json:"obligation"`
	Function   string            `json:"function"`
	Model      map[string]string `json:"model"`
}

func TestVerifReplay(t *testing.T) {
	b, err := os.ReadFile(os.Getenv("GOVC_REPLAY"))
	if err != nil {
		t.Skip("no replay file")
	}
	var r replayFile
	if err := json.Unmarshal(b, &r); err != nil {
		t.Fatal(err)
	}
	lens := []int{0, 1, 2, 3, 31, 32, 33, 64}
	for _, k := range []string{"p.len", "plainText.len", "cipherText.len"} {
		if v, ok := r.Model[k]; ok {
			if n, err := strconv.Atoi(strings.TrimSpace(v)); err == nil && n >= 0 && n < 1<<20 {
				if k == "cipherText.len" {
					n = n / 2
				}
				lens = append([]int{n}, lens...)
			}
		}
	}
	var priv, pub [32]byte
	for i := range priv {
		priv[i] = byte(i + 1)
	}
	obfs := map[string]Obfuscator{"XOR": XORObfuscator{}, "Nil": NilObfuscator{}}
	for name, o := range obfs {
		if !strings.Contains(r.Obligation, name) && !strings.Contains(strings.ToLower(r.Obligation), strings.ToLower(name)) {
			continue
		}
		for _, n := range lens {
			p := make([]byte, n)
			for i := range p {
				p[i] = byte(i*5 + 1)
			}
			c, err := o.Obfuscate(p, pub[:])
			if err != nil {
				continue
			}
			d, err := o.TryReveal(c, priv)
			if err != nil || !bytes.Equal(d, p) {
				fmt.Printf("REPRODUCED: %sObfuscator round trip fails for len(tag)=%d: err=%v decoded=%x\n", name, n, err, d)
				t.Fail()
				return
			}
		}
	}
	fmt.Println("NOT-REPRODUCED")
}
