package regprocessor

// Replay harness for C12 (injected with go test -overlay; never written into /repo).
// Runs the real processBdReq with two override subnets of equal weight and a 100% override rate for the Min
// transport and checks the clause "every override subnet with a non-zero weight is used" and that the substituted
// phantom lies inside an override subnet.

import (
	"fmt"
	"net"
	"sync"
	"testing"

	"github.com/refraction-networking/conjure/pkg/phantoms"
	"github.com/refraction-networking/conjure/pkg/transports/wrapping/min"
	pb "github.com/refraction-networking/conjure/proto"
)

type c12Selector struct{}

func (*c12Selector) Select([]byte, uint, uint, bool) (*phantoms.PhantomIP, error) {
	return phantoms.IP(net.ParseIP("192.122.190.7"), true), nil
}

func TestVerifReplay(t *testing.T) {
	_, n1, _ := net.ParseCIDR("203.0.113.0/25")
	_, n2, _ := net.ParseCIDR("198.51.100.0/25")
	subs := []Subnet{{CIDR: Ipnet{n1}, Weight: 50, Transport: "Min_Transport"}, {CIDR: Ipnet{n2}, Weight: 50, Transport: "Min_Transport"}}
	r := &RegProcessor{zmqMutex: sync.Mutex{}, selectorMutex: sync.RWMutex{}, ipSelector: &c12Selector{},
		enforceSubnetOverrides: true, minOverrideSubnets: subs, minOverrideSubnetsCumulativeWeights: processOverrideSubnetsWeights(subs),
		prcntMinRegsToOverride: 1000}
	if err := r.AddTransport(pb.TransportType_Min, min.Transport{}); err != nil {
		t.Fatal(err)
	}
	tspt := pb.TransportType_Min
	yes := true
	clv := uint32(4)
	counts := map[int]int{}
	for i := 0; i < 400; i++ {
		c2sw := &pb.C2SWrapper{RegistrationPayload: &pb.ClientToStation{ClientLibVersion: &clv, Transport: &tspt, V4Support: &yes}, SharedSecret: make([]byte, 32)}
		resp, err := r.processBdReq(c2sw)
		if err != nil || resp == nil || resp.Ipv4Addr == nil {
			fmt.Println("NOT-REPRODUCED (harness: request failed):", err)
			return
		}
		ip := uint32ToIPv4(resp.Ipv4Addr)
		switch {
		case n1.Contains(ip):
			counts[0]++
		case n2.Contains(ip):
			counts[1]++
		case ip.Equal(net.ParseIP("192.122.190.7")):
			counts[2]++ // not overridden
		default:
			fmt.Printf("REPRODUCED: substituted phantom %v is inside no configured override subnet\n", ip)
			t.Fail()
			return
		}
	}
	if counts[0] == 0 || counts[1] == 0 {
		fmt.Printf("REPRODUCED: 400 overrides over two override subnets of equal weight chose them %d / %d times: a subnet with non-zero weight is never used\n", counts[0], counts[1])
		t.Fail()
		return
	}
	fmt.Println("NOT-REPRODUCED", counts)
}
