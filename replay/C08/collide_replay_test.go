package lib

// Replay harness for C08 (injected with go test -overlay; never written into /repo): one client registers twice with
// the same shared secret (hence the same phantom) under two different transports. Both registrations are tracked,
// both lifetimes have passed, the sweep runs - both must be gone.

import (
	"fmt"
	"os"
	"testing"
	"time"

	"github.com/refraction-networking/conjure/pkg/core"
	"github.com/refraction-networking/conjure/pkg/transports"
	pb "github.com/refraction-networking/conjure/proto"
)

type replayTransportB struct{ mockTransport }

func (*replayTransportB) GetIdentifier(d transports.Registration) string {
	return string(core.ConjureHMAC(d.SharedSecret(), "AnotherTransportHMACString"))
}

func TestVerifReplayCollide(t *testing.T) {
	os.Setenv("PHANTOM_SUBNET_LOCATION", "./test/phantom_subnets.toml")
	rm := NewRegistrationManager(&RegConfig{})
	if rm == nil || rm.AddTransport(0, &mockTransport{}) != nil || rm.AddTransport(1, &replayTransportB{}) != nil {
		fmt.Println("NOT-REPRODUCED (setup)")
		return
	}
	rm.registeredDecoys.timeoutUnused = 0
	rm.registeredDecoys.timeoutActive = 0
	src := pb.RegistrationSource_API
	mk := func(tt pb.TransportType) *DecoyRegistration {
		c2s, keys := mockReceiveFromDetector()
		c2s.Transport = &tt
		reg, err := rm.NewRegistration(c2s, &keys, false, &src)
		if err != nil {
			return nil
		}
		return reg
	}
	a, b := mk(0), mk(1)
	if a == nil || b == nil || rm.TrackRegistration(a) != nil || rm.TrackRegistration(b) != nil {
		fmt.Println("NOT-REPRODUCED (setup)")
		return
	}
	before := rm.CountRegistrations(a.PhantomIp)
	time.Sleep(5 * time.Millisecond)
	rm.RemoveOldRegistrations()
	rm.RemoveOldRegistrations()
	after := rm.CountRegistrations(a.PhantomIp)
	if before == 2 && after != 0 {
		fmt.Printf("REPRODUCED: two registrations with the same shared secret (same phantom %v) under transports 0 and 1 were tracked (%d entries); after both lifetimes passed and two sweeps %d is still tracked and can never expire: the second track() replaced the first one's expiry record (same key IDString()+phantom = %q for both)\n", a.PhantomIp, before, after, a.IDString()+a.PhantomIp.String())
		t.Fail()
		return
	}
	fmt.Printf("NOT-REPRODUCED (before=%d after=%d)\n", before, after)
}
