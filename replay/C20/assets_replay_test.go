package assets

// Replay harness for C20 (injected with go test -overlay; never written into /repo).
// Observes, with inotify, every file-system event on the stored ClientConf while the real setters run, and runs the
// real store under a write failure (RLIMIT_FSIZE). The file must only ever be replaced by a rename of a complete
// temporary file; a failed store must leave the previous file and the previous in-memory configuration.

import (
	"bytes"
	"fmt"
	"os"
	"os/signal"
	"path/filepath"
	"syscall"
	"testing"
	"time"
	"unsafe"

	pb "github.com/refraction-networking/conjure/proto"
	"google.golang.org/protobuf/proto"
)

func watchEvents(dir string, stop chan struct{}, out chan []string) {
	fd, err := syscall.InotifyInit()
	if err != nil {
		out <- nil
		return
	}
	defer syscall.Close(fd)
	syscall.InotifyAddWatch(fd, dir, syscall.IN_ALL_EVENTS)
	syscall.SetNonblock(fd, true)
	var evs []string
	buf := make([]byte, 65536)
	for {
		n, _ := syscall.Read(fd, buf)
		off := 0
		for n > 0 && off+syscall.SizeofInotifyEvent <= n {
			ev := (*syscall.InotifyEvent)(unsafe.Pointer(&buf[off]))
			name := string(bytes.TrimRight(buf[off+syscall.SizeofInotifyEvent:off+syscall.SizeofInotifyEvent+int(ev.Len)], "\x00"))
			if name == "ClientConf" {
				switch {
				case ev.Mask&syscall.IN_MOVED_TO != 0:
					evs = append(evs, "MOVED_TO")
				case ev.Mask&syscall.IN_DELETE != 0:
					evs = append(evs, "DELETE")
				case ev.Mask&syscall.IN_MODIFY != 0:
					evs = append(evs, "MODIFY")
				case ev.Mask&syscall.IN_MOVED_FROM != 0:
					evs = append(evs, "MOVED_FROM")
				case ev.Mask&syscall.IN_CREATE != 0:
					evs = append(evs, "CREATE")
				}
			}
			off += syscall.SizeofInotifyEvent + int(ev.Len)
		}
		select {
		case <-stop:
			if n <= 0 {
				out <- evs
				return
			}
		default:
			if n <= 0 {
				time.Sleep(2 * time.Millisecond)
			}
		}
	}
}

func TestVerifReplay(t *testing.T) {
	dir := t.TempDir()
	gen := uint32(7)
	small := &pb.ClientConf{Generation: &gen}
	file := filepath.Join(dir, "ClientConf")
	os.WriteFile(file, mustMarshal(small), 0644)
	a, err := AssetsSetDir(dir)
	if err != nil {
		fmt.Println("NOT-REPRODUCED (harness could not initialise assets):", err)
		return
	}
	if err := a.SetClientConf(small); err != nil {
		fmt.Println("NOT-REPRODUCED (harness could not store the initial configuration):", err)
		return
	}
	// 1. every store replaces the file by exactly one rename and nothing else
	stop, out := make(chan struct{}), make(chan []string, 1)
	go watchEvents(dir, stop, out)
	time.Sleep(50 * time.Millisecond)
	g2 := uint32(8)
	a.SetClientConf(&pb.ClientConf{Generation: &g2})
	a.SetGeneration(9)
	time.Sleep(50 * time.Millisecond)
	close(stop)
	evs := <-out
	for _, e := range evs {
		if e != "MOVED_TO" {
			fmt.Printf("REPRODUCED: the stored ClientConf saw event %s (events %v): a crash at that moment leaves no file or a partial file\n", e, evs)
			t.Fail()
			return
		}
	}
	// 2. a write failure (file size limit) must leave the previous file and the previous configuration
	before, _ := os.ReadFile(file)
	big := &pb.ClientConf{Generation: &g2, DecoyList: &pb.DecoyList{}}
	host := string(bytes.Repeat([]byte("x"), 1000))
	for i := 0; i < 3000; i++ {
		big.DecoyList.TlsDecoys = append(big.DecoyList.TlsDecoys, &pb.TLSDecoySpec{Hostname: &host})
	}
	signal.Ignore(syscall.SIGXFSZ)
	var old syscall.Rlimit
	syscall.Getrlimit(syscall.RLIMIT_FSIZE, &old)
	syscall.Setrlimit(syscall.RLIMIT_FSIZE, &syscall.Rlimit{Cur: 1 << 20, Max: old.Max})
	prev := a.GetClientConfPtr()
	serr := a.SetClientConf(big)
	syscall.Setrlimit(syscall.RLIMIT_FSIZE, &old)
	after, _ := os.ReadFile(file)
	var parsed pb.ClientConf
	perr := proto.Unmarshal(after, &parsed)
	if serr == nil && !bytes.Equal(after, mustMarshal(big)) {
		fmt.Printf("REPRODUCED: the store reported success under a write failure but the file (%d bytes, parse error %v) is not the new configuration\n", len(after), perr)
		t.Fail()
		return
	}
	if serr != nil && (!bytes.Equal(after, before) || a.GetClientConfPtr() != prev) {
		fmt.Printf("REPRODUCED: failed store (%v) changed the file or the in-memory configuration\n", serr)
		t.Fail()
		return
	}
	fmt.Println("NOT-REPRODUCED")
}

func mustMarshal(m proto.Message) []byte {
	b, _ := proto.Marshal(m)
	return b
}
