package integration_test

// Replay harness for C04 (injected with go test -overlay; never written into /repo): an obfs4 client connects to
// its phantom, the station's obfs4 transport recognises it, and the station's own relay (lib.Proxy) is run on the
// wrapped connection towards a local echo "covert". Application bytes the client sends must come back.

import (
	"bytes"
	"context"
	"crypto/rand"
	"errors"
	"fmt"
	"io"
	golog "log"
	"net"
	"os"
	"testing"
	"time"

	"github.com/refraction-networking/conjure/internal/conjurepath"
	"github.com/refraction-networking/conjure/internal/testutils"
	"github.com/refraction-networking/conjure/pkg/core"
	"github.com/refraction-networking/conjure/pkg/station/lib"
	"github.com/refraction-networking/conjure/pkg/station/log"
	"github.com/refraction-networking/conjure/pkg/transports"
	"github.com/refraction-networking/conjure/pkg/transports/wrapping/obfs4"
	pb "github.com/refraction-networking/conjure/proto"
	"github.com/refraction-networking/ed25519"
	"github.com/refraction-networking/ed25519/extra25519"
	"golang.org/x/crypto/curve25519"
)

func TestVerifReplayObfs4Relay(t *testing.T) {
	os.Setenv("PHANTOM_SUBNET_LOCATION", conjurepath.Root+"/pkg/station/lib/test/phantom_subnets.toml")
	_, private, _ := ed25519.GenerateKey(rand.Reader)
	var pub, priv [32]byte
	extra25519.PrivateKeyToCurve25519(&priv, private)
	curve25519.ScalarBaseMult(&pub, &priv)

	echo, err := net.Listen("tcp", "127.0.0.1:0")
	if err != nil {
		fmt.Printf("NOT-REPRODUCED (setup: %v)\n", err)
		return
	}
	defer echo.Close()
	go func() {
		for {
			c, err := echo.Accept()
			if err != nil {
				return
			}
			go func() { _, _ = io.Copy(c, c); c.Close() }()
		}
	}()

	var station lib.WrappingTransport = &obfs4.Transport{}
	client := &obfs4.ClientTransport{}
	clientKeys, err := core.GenerateClientSharedKeys(pub)
	if err != nil {
		fmt.Printf("NOT-REPRODUCED (setup: %v)\n", err)
		return
	}
	_ = client.SetParams(nil)
	_ = client.Prepare(context.Background(), nil)
	protoParams, _ := client.GetParams()
	manager := testutils.SetupRegistrationManager(testutils.Transport{Index: pb.TransportType_Obfs4, Transport: station})
	c2p, sfp, reg := testutils.SetupPhantomConnectionsSecret(manager, pb.TransportType_Obfs4, protoParams, clientKeys.SharedSecret, uint(core.CurrentClientLibraryVersion()), testutils.TestSubnetPath)
	defer c2p.Close()
	defer sfp.Close()
	reg.Covert = echo.Addr().String()

	type res struct {
		deadlineErr error
		err         error
	}
	done := make(chan res, 1)
	go func() {
		var buf [10240]byte
		received := bytes.Buffer{}
		for {
			n, err := sfp.Read(buf[:])
			if err != nil {
				done <- res{err: err}
				return
			}
			received.Write(buf[:n])
			_, c, err := station.WrapConnection(&received, sfp, reg.PhantomIp, manager)
			if err == nil {
				derr := c.SetDeadline(time.Now().Add(time.Minute))
				logger := log.New(io.Discard, "", golog.Ldate)
				lib.Proxy(reg, c, logger) // the station's relay, as handleNewTCPConn calls it
				done <- res{deadlineErr: derr}
				return
			} else if !errors.Is(err, transports.ErrTryAgain) {
				done <- res{err: err}
				return
			}
		}
	}()

	if err := client.PrepareKeys(pub, reg.Keys.SharedSecret, clientKeys.Reader); err != nil {
		fmt.Printf("NOT-REPRODUCED (setup: %v)\n", err)
		return
	}
	_ = c2p.SetDeadline(time.Now().Add(10 * time.Second))
	cc, err := client.WrapConn(c2p)
	if err != nil {
		fmt.Printf("NOT-REPRODUCED (client handshake: %v)\n", err)
		return
	}
	msg := []byte("application bytes after the obfs4 handshake")
	_, werr := cc.Write(msg)
	got := make([]byte, len(msg))
	_, rerr := io.ReadFull(cc, got)
	if rerr == nil && bytes.Equal(got, msg) {
		fmt.Println("NOT-REPRODUCED")
		return
	}
	var r res
	select {
	case r = <-done:
	case <-time.After(5 * time.Second):
	}
	fmt.Printf("REPRODUCED: an obfs4 client was recognised, but the station's relay forwarded nothing: client write err=%v, echo read err=%v; SetDeadline on the connection returned by the obfs4 transport: %v (lib.halfPipe returns at once when it cannot set a deadline)\n", werr, rerr, r.deadlineErr)
	t.Fail()
}
