package regprocessor

// Replay harness for C13 (injected with go test -overlay; never written into /repo).
// A deterministic schedule on the real code: a reload (the real ReloadSubnets) arrives between the IPv4 and the
// IPv6 selection of one dual-stack request. If the request read-locks selectorMutex again while the reload is
// waiting for the write lock, Go's RWMutex blocks the new reader behind the writer and the writer behind the first
// read hold: both wait forever.

import (
	"fmt"
	"net"
	"os"
	"path/filepath"
	"runtime"
	"sync"
	"testing"
	"time"

	"github.com/refraction-networking/conjure/pkg/phantoms"
	"github.com/refraction-networking/conjure/pkg/transports/wrapping/prefix"
	pb "github.com/refraction-networking/conjure/proto"
	"google.golang.org/protobuf/types/known/anypb"
)

type replaySelector struct {
	p       *RegProcessor
	calls   int
	started chan struct{}
	done    chan error
}

func (s *replaySelector) Select(seed []byte, gen uint, ver uint, v6 bool) (*phantoms.PhantomIP, error) {
	s.calls++
	if s.calls == 1 {
		go func() {
			close(s.started)
			s.done <- s.p.ReloadSubnets()
		}()
		<-s.started
		time.Sleep(300 * time.Millisecond) // let the reload reach selectorMutex.Lock()
	}
	if v6 {
		return phantoms.IP(net.ParseIP("2001:db8::1"), true), nil
	}
	return phantoms.IP(net.ParseIP("8.8.8.8"), true), nil
}

func TestVerifReplay(t *testing.T) {
	_, file, _, _ := runtime.Caller(0)
	root := filepath.Join(filepath.Dir(file), "..", "..", "..")
	os.Setenv("PHANTOM_SUBNET_LOCATION", filepath.Join(root, "pkg", "phantoms", "test", "phantom_subnets.toml"))
	r := &RegProcessor{zmqMutex: sync.Mutex{}, selectorMutex: sync.RWMutex{}}
	sel := &replaySelector{p: r, started: make(chan struct{}), done: make(chan error, 1)}
	r.ipSelector = sel
	if err := r.AddTransport(pb.TransportType_Prefix, prefix.DefaultSet()); err != nil {
		t.Fatal(err)
	}
	tspt := pb.TransportType_Prefix
	yes := true
	id := int32(prefix.Min)
	params, _ := anypb.New(&pb.PrefixTransportParams{PrefixId: &id, RandomizeDstPort: &yes})
	clv := uint32(4)
	c2sw := &pb.C2SWrapper{RegistrationPayload: &pb.ClientToStation{ClientLibVersion: &clv, Transport: &tspt, V6Support: &yes, V4Support: &yes, TransportParams: params}, SharedSecret: make([]byte, 32)}
	finished := make(chan error, 1)
	go func() {
		_, err := r.processBdReq(c2sw)
		finished <- err
	}()
	select {
	case err := <-finished:
		select {
		case rerr := <-sel.done:
			fmt.Printf("NOT-REPRODUCED request err=%v reload err=%v selections=%d\n", err, rerr, sel.calls)
		case <-time.After(3 * time.Second):
			fmt.Println("REPRODUCED: the request completed but the reload is still blocked after 3s")
			t.Fail()
		}
	case <-time.After(3 * time.Second):
		fmt.Printf("REPRODUCED: dual-stack request blocked (after %d selection) with a reload waiting for selectorMutex: deadlock of the real code\n", sel.calls)
		t.Fail()
	}
}
