package phantoms

// Replay harness for C14 (injected with go test -overlay; never written into /repo).
// Runs the real selection for every client library version and both families over subnet sets that include networks
// whose first address byte is zero, and evaluates the property: the phantom is a well-formed address (4 or 16 bytes)
// of the requested family inside one of the configured subnets; and a generation whose weights are all zero must fail
// with an error, not panic.

import (
	"fmt"
	"net"
	"testing"

	pb "github.com/refraction-networking/conjure/proto"
)

func mkSel(cidrs []string, weight uint32) *PhantomIPSelector {
	w := weight
	rp := true
	return &PhantomIPSelector{Networks: map[uint]*SubnetConfig{1: {WeightedSubnets: []*pb.PhantomSubnets{{Weight: &w, Subnets: cidrs, RandomizeDstPort: &rp}}}}}
}

func TestVerifReplay(t *testing.T) {
	sets := [][]string{{"0.10.0.0/16", "64:ff9b::/96"}, {"192.122.190.0/24", "2001:48a8:687f:1::/64"}, {"0.0.0.0/8", "::/64"}, {"1.2.3.0/24", "0:ffff::/32"}}
	for _, cidrs := range sets {
		var nets []*net.IPNet
		for _, c := range cidrs {
			_, n, _ := net.ParseCIDR(c)
			nets = append(nets, n)
		}
		sel := mkSel(cidrs, 1)
		for ver := uint(0); ver <= 4; ver++ {
			for _, v6 := range []bool{false, true} {
				for s := 0; s < 40; s++ {
					seed := make([]byte, 16)
					for i := range seed {
						seed[i] = byte(s*31 + i*7 + 1)
					}
					var ph *PhantomIP
					var err error
					func() {
						defer func() {
							if p := recover(); p != nil {
								err = fmt.Errorf("panic: %v", p)
								fmt.Printf("REPRODUCED: Select panics (%v) for subnets %v version %d v6=%v\n", p, cidrs, ver, v6)
								t.Fail()
							}
						}()
						ph, err = sel.Select(seed, 1, ver, v6)
					}()
					if t.Failed() {
						return
					}
					if err != nil || ph == nil || ph.IP() == nil {
						continue
					}
					ip := *ph.IP()
					inside := false
					for _, n := range nets {
						if n.Contains(ip) {
							inside = true
						}
					}
					if (len(ip) != 4 && len(ip) != 16) || !inside || (v6 != (ip.To4() == nil)) {
						fmt.Printf("REPRODUCED: Select(subnets %v, libver %d, v6=%v) = %d-byte address %q: malformed / outside every configured subnet / wrong family\n", cidrs, ver, v6, len(ip), ip.String())
						t.Fail()
						return
					}
				}
			}
		}
	}
	// zero total weight
	func() {
		defer func() {
			if p := recover(); p != nil {
				fmt.Printf("REPRODUCED: Select panics (%v) for a generation whose weights are all zero (should be an error)\n", p)
				t.Fail()
			}
		}()
		mkSel([]string{"192.122.190.0/24"}, 0).Select(make([]byte, 16), 1, 4, false)
	}()
	if !t.Failed() {
		fmt.Println("NOT-REPRODUCED")
	}
}
