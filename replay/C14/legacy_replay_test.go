package phantoms

// Replay harness for C14 (injected with go test -overlay; never written into /repo): legacy (client library version
// 0/1) weighted subnet-group choice. The same seed must give the same group however often and whenever it is asked;
// meanwhile another goroutine uses math/rand's global source, as the station's connection handler does
// (rand.Int63n for every new connection).

import (
	"fmt"
	mrand "math/rand"
	"net"
	"sync/atomic"
	"testing"

	pb "github.com/refraction-networking/conjure/proto"
)

func TestVerifReplayLegacy(t *testing.T) {
	w := func(n uint32) *uint32 { return &n }
	sc := &SubnetConfig{WeightedSubnets: []*pb.PhantomSubnets{
		{Weight: w(1), Subnets: []string{"192.0.2.0/24"}},
		{Weight: w(1), Subnets: []string{"198.51.100.0/24"}},
		{Weight: w(1), Subnets: []string{"203.0.113.0/24"}},
		{Weight: w(1), Subnets: []string{"2001:db8::/64"}},
	}}
	seed := []byte{0x9a, 0x04, 0x18, 0x0b, 0xa2, 0x01, 0x0e, 0x35}
	first, err := sc.getSubnetsVarint(seed, true)
	if err != nil || len(first) == 0 {
		fmt.Printf("NOT-REPRODUCED (setup: %v)\n", err)
		return
	}
	var stop int32
	done := make(chan struct{})
	go func() { // the rest of the station: new connections draw their deadline from the global source
		for atomic.LoadInt32(&stop) == 0 {
			mrand.Int63n(5000)
		}
		close(done)
	}()
	defer func() { atomic.StoreInt32(&stop, 1); <-done }()
	for i := 0; i < 200000; i++ {
		got, err := sc.getSubnetsVarint(seed, true)
		if err != nil || len(got) == 0 || got[0].String() != first[0].String() {
			fmt.Printf("REPRODUCED: legacy weighted group choice for the SAME seed changed from %v to %v (err=%v) after %d repetitions while another goroutine used math/rand's global source: the choice goes through rand.Seed + the global source, which the whole process shares\n", first[0], got, err, i)
			t.Fail()
			return
		}
	}
	fmt.Println("NOT-REPRODUCED")
}

var netParse = net.ParseCIDR

func TestVerifReplayLegacyAddr(t *testing.T) {
	_, n, _ := netParse("192.0.2.0/24")
	seed := []byte{0x9a, 0x04, 0x18, 0x0b, 0xa2, 0x01, 0x0e, 0x35}
	first, err := SelectAddrFromSubnet(seed, n)
	if err != nil {
		fmt.Printf("NOT-REPRODUCED (setup: %v)\n", err)
		return
	}
	var stop int32
	done := make(chan struct{})
	go func() {
		for atomic.LoadInt32(&stop) == 0 {
			mrand.Int63n(5000)
		}
		close(done)
	}()
	defer func() { atomic.StoreInt32(&stop, 1); <-done }()
	for i := 0; i < 200000; i++ {
		got, err := SelectAddrFromSubnet(seed, n)
		if err != nil || !got.Equal(first) {
			fmt.Printf("REPRODUCED: legacy address choice for the SAME seed and subnet changed from %v to %v (err=%v) after %d repetitions while another goroutine used math/rand's global source\n", first, got, err, i)
			t.Fail()
			return
		}
	}
	fmt.Println("NOT-REPRODUCED")
}
