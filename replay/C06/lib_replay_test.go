package lib

// Replay harness for C06 (injected with go test -overlay; never written into /repo).
// Runs the real ParseOrResolveBlocklisted on corner-case covert strings (offline: IP literals and empty hosts only)
// under a configuration that forbids loopback and private space, and evaluates the property: whatever is returned
// for dialling is a literal IP:port whose IP is outside the forbidden subnets.

import (
	"fmt"
	"net"
	"testing"
)

func TestVerifReplay(t *testing.T) {
	for _, allow := range []bool{false, true} {
		c := &RegConfig{CovertBlocklistSubnets: []string{"127.0.0.0/8", "10.0.0.0/8", "::1/128", "0.0.0.0/32", "::/128"}}
		if allow {
			c.CovertAllowlistSubnets = []string{"192.0.2.0/24"}
		}
		c.ParseBlocklists()
		inputs := []string{":80", "[]:80", ":0", "127.0.0.1:80", "[::1]:443", "10.1.2.3:22", "192.0.2.7:80", "0.0.0.0:80", "[::]:80",
			"192.0.2.7:99999", "192.0.2.7", "[192.0.2.7]:80", "192.0.2.7%eth0:80", "[fe80::1%lo]:80", "[::ffff:127.0.0.1]:80", "127.1:80"}
		for _, in := range inputs {
			out, _ := c.ParseOrResolveBlocklisted(in)
			if out == "" {
				continue
			}
			host, _, err := net.SplitHostPort(out)
			if err != nil {
				fmt.Printf("REPRODUCED: ParseOrResolveBlocklisted(%q) = %q is not host:port (%v)\n", in, out, err)
				t.Fail()
				return
			}
			ipa, err := net.ResolveIPAddr("ip", host)
			if host == "" || err != nil || ipa == nil || ipa.IP == nil {
				fmt.Printf("REPRODUCED: ParseOrResolveBlocklisted(%q) = %q (allowlist=%v): the host is not a literal IP; net.Dial(\"tcp\", %q) connects to the local system although loopback is blocklisted\n", in, out, allow, out)
				t.Fail()
				return
			}
			if c.isBlocklistedCovertAddr(ipa.IP) {
				fmt.Printf("REPRODUCED: ParseOrResolveBlocklisted(%q) = %q but that address is forbidden by the configured policy (allowlist=%v)\n", in, out, allow)
				t.Fail()
				return
			}
		}
	}
	fmt.Println("NOT-REPRODUCED")
}
