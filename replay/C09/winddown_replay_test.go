package lib

// Replay harness for C09 (injected with go test -overlay; never written into /repo): shutdown of the ingest pipeline.
// A stop request arrives while no registration is arriving; HandleRegUpdates must return in bounded time.

import (
	"context"
	"fmt"
	"os"
	"sync"
	"testing"
	"time"
)

func TestVerifReplayWindDown(t *testing.T) {
	os.Setenv("PHANTOM_SUBNET_LOCATION", "./test/phantom_subnets.toml")
	rm := NewRegistrationManager(&RegConfig{IngestWorkerCount: 4})
	if rm == nil {
		fmt.Println("NOT-REPRODUCED (setup)")
		return
	}
	ctx, cancel := context.WithCancel(context.Background())
	regChan := make(chan interface{}) // nothing is ever delivered, and it is never closed (as with the ZMQ receiver)
	var wg sync.WaitGroup
	wg.Add(1)
	returned := make(chan struct{})
	go func() { rm.HandleRegUpdates(ctx, regChan, &wg); close(returned) }()
	time.Sleep(50 * time.Millisecond)
	cancel()
	select {
	case <-returned:
		fmt.Println("NOT-REPRODUCED")
	case <-time.After(3 * time.Second):
		fmt.Println("REPRODUCED: 3 s after the stop request HandleRegUpdates has not returned: with no registration arriving the distributor sits in 'for msg := range regChan' and never looks at ctx.Done() (the workers did stop)")
		t.Fail()
	}
}
