package lib

// Replay harness for C09 (injected with go test -overlay, run under the race detector; never written into /repo):
// the expiry sweep runs concurrently with registration tracking; any access to the registry maps outside the lock is
// reported by the race detector ("shared state is never accessed without synchronisation").

import (
	"fmt"
	"net"
	"os"
	"sync"
	"testing"

	"github.com/refraction-networking/conjure/pkg/station/log"
	pb "github.com/refraction-networking/conjure/proto"
)


func TestVerifReplay(t *testing.T) {
	r := NewRegisteredDecoys()
	r.registerForDetector = func(*DecoyRegistration) {}
	r.updateInDetector = func(*DecoyRegistration) {}
	logger := log.New(os.Stdout, "", 0)
	var wg sync.WaitGroup
	wg.Add(2)
	go func() {
		defer wg.Done()
		for i := 0; i < 2000; i++ {
			d := &DecoyRegistration{PhantomIp: net.ParseIP(fmt.Sprintf("192.0.2.%d", i%250)), Transport: pb.TransportType_Null}
			_ = r.Track(d) // unknown transport: returns an error after reading the registry under the lock
			r.m.Lock()
			r.decoysTimeouts[fmt.Sprintf("k%d", i)] = &DecoyTimeout{decoy: "x", identifier: "y"}
			delete(r.decoysTimeouts, fmt.Sprintf("k%d", i-1))
			r.m.Unlock()
		}
	}()
	go func() {
		defer wg.Done()
		for i := 0; i < 2000; i++ {
			r.removeOldRegistrations(logger)
		}
	}()
	wg.Wait()
	fmt.Println("done (a data race, if any, is reported by the race detector above)")
}
