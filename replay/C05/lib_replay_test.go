package lib

// Replay harness for C05 (injected with go test -overlay; never written into /repo).
// Runs the real halfPipe with a scripted source connection that returns its last bytes TOGETHER with the
// end-of-stream / error indication (legal for io.Reader) and checks that every byte that was read is delivered.

import (
	"bytes"
	"fmt"
	"io"
	"net"
	"os"
	"sync"
	"syscall"
	"testing"
	"time"

	"github.com/refraction-networking/conjure/pkg/station/log"
)

type c05Step struct {
	data []byte
	err  error
}

type c05Conn struct {
	net.Conn
	steps  []c05Step
	got    bytes.Buffer
	closed bool
	mu     sync.Mutex
}

func (c *c05Conn) Read(b []byte) (int, error) {
	c.mu.Lock()
	defer c.mu.Unlock()
	if len(c.steps) == 0 {
		return 0, io.EOF
	}
	s := c.steps[0]
	c.steps = c.steps[1:]
	return copy(b, s.data), s.err
}
func (c *c05Conn) Write(b []byte) (int, error)      { c.mu.Lock(); defer c.mu.Unlock(); return c.got.Write(b) }
func (c *c05Conn) Close() error                     { c.mu.Lock(); defer c.mu.Unlock(); c.closed = true; return nil }
func (c *c05Conn) SetDeadline(time.Time) error      { return nil }
func (c *c05Conn) SetReadDeadline(time.Time) error  { return nil }
func (c *c05Conn) SetWriteDeadline(time.Time) error { return nil }
func (c *c05Conn) RemoteAddr() net.Addr             { return &net.TCPAddr{IP: net.ParseIP("192.0.2.1"), Port: 1} }
func (c *c05Conn) LocalAddr() net.Addr              { return &net.TCPAddr{IP: net.ParseIP("192.0.2.2"), Port: 2} }

func TestVerifReplay(t *testing.T) {
	scripts := [][]c05Step{
		{{[]byte("hello"), io.EOF}},
		{{[]byte("abc"), nil}, {[]byte("defgh"), syscall.ECONNRESET}},
		{{[]byte("abc"), nil}, {[]byte("tail"), io.EOF}},
	}
	logger := log.New(os.Stdout, "", 0)
	for _, sc := range scripts {
		var want []byte
		for _, s := range sc {
			want = append(want, s.data...)
		}
		src := &c05Conn{steps: sc}
		dst := &c05Conn{}
		var wg sync.WaitGroup
		wg.Add(1)
		st := &tunnelStats{proxyStats: getProxyStats()}
		halfPipe(src, dst, &wg, logger, "Up test", st)
		wg.Wait()
		time.Sleep(20 * time.Millisecond)
		dst.mu.Lock()
		got := append([]byte(nil), dst.got.Bytes()...)
		dst.mu.Unlock()
		if !bytes.Equal(got, want) {
			fmt.Printf("REPRODUCED: the source handed out %q (last chunk together with %v) but only %q was delivered; reported BytesUp=%d\n", want, sc[len(sc)-1].err, got, st.BytesUp)
			t.Fail()
			return
		}
		if int(st.BytesUp) != len(got) || !dst.closed {
			fmt.Printf("REPRODUCED: delivered %d bytes, reported %d, dst closed=%v\n", len(got), st.BytesUp, dst.closed)
			t.Fail()
			return
		}
	}
	fmt.Println("NOT-REPRODUCED")
}
