#!/bin/bash
# usage: regress.sh [quick|thorough]  -- runs every claimed check; prints only the checks that report something
cd /verif; T=${1:-quick}
for p in $(python3 -c "import json;print(' '.join(c['property_id'] for c in json.load(open('MANIFEST.json'))['checks']))"); do
  timeout 3000 ./check $p $T 2>&1 | grep -v "^KNOWN" | tail -1
done 2>&1 | grep -v " 0 violations"
echo regression-done
