#!/bin/bash
# usage: [CWT=<clone>] confirm.sh <ID> <k>  -- confirms a seeded change in a scratch clone of its own (/tmp/seed5/cwt; never the clone an agent works in)
ID=$1; K=$2; WT=${CWT:-/tmp/seed5/cwt}; AWT=/tmp/seed5/wt-$ID; OUT=/tmp/seed5/$ID-out/$K; LOG=$OUT/confirm.log
export GOPROXY=off GOSUMDB=off GOTOOLCHAIN=local GOFLAGS=
exec > $LOG 2>&1
cd $WT || exit 1
git checkout -q -- . ; git clean -fdq
python3 - "$OUT" "$WT" "$AWT" <<'PY'
import json,sys,shutil,os
out,wt,awt=sys.argv[1],sys.argv[2],sys.argv[3]
m=json.load(open(out+'/meta.json'))
places=[]
for d in m.get('demo_files',[]):
    src=os.path.join(out,os.path.basename(d['file']))
    dst=d['place_at']
    if not dst.endswith('.go'): dst=os.path.join(dst,os.path.basename(d['file']))
    dst=os.path.join(wt,dst)
    places.append((src,dst))
json.dump({'places':places,'cmd':m['demo_cmd'].replace('<repo root>',wt).replace(awt,wt)},open(out+'/.confirm.json','w'))
PY
PLACES=$(python3 -c "import json;print('\n'.join(a+' '+b for a,b in json.load(open('$OUT/.confirm.json'))['places']))")
CMD=$(python3 -c "import json;print(json.load(open('$OUT/.confirm.json'))['cmd'])")
echo "$PLACES" | while read s d; do [ -n "$s" ] && mkdir -p "$(dirname "$d")" && cp "$s" "$d"; done
echo "== demo on unchanged tree (expect PASS): $CMD"
( cd $WT && eval "timeout 600 bash -c $(printf '%q' "$CMD")" ) > $OUT/.demo_clean.txt 2>&1; RC_CLEAN=$?
tail -5 $OUT/.demo_clean.txt
git apply $OUT/patch.diff || { echo "PATCH DOES NOT APPLY"; exit 1; }
echo "== demo with change (expect FAIL)"
( cd $WT && eval "timeout 600 bash -c $(printf '%q' "$CMD")" ) > $OUT/.demo_patched.txt 2>&1; RC_PATCH=$?
tail -8 $OUT/.demo_patched.txt
echo "$PLACES" | while read s d; do [ -n "$d" ] && rm -f "$d"; done
echo "== suite with change (demo removed)"
# (pkg/regserver/regprocessor binds fixed local ports: the whole suite runs in a private network namespace, so
# concurrent runs on this machine cannot collide and no lock is needed)
unshare -n bash -c 'ip link set lo up; for m in . ./cmd/application ./cmd/registration-server ./util/station-debug; do (cd '$WT'/$m && go build ./... && go test -vet=off -count=1 -timeout 10m ./... 2>&1 | grep -v "^ok\|no test files"); done' > $OUT/.suite.txt 2>&1
cat $OUT/.suite.txt | grep -- "--- FAIL\|^FAIL\|panic\|build failed\|cannot\|undefined" | head -20
NF=$(grep -- "--- FAIL" $OUT/.suite.txt | grep -v TestConjureLibConfigResolveBlocklisted | wc -l)
BUILD=$(grep -c "build failed\|undefined:\|cannot use" $OUT/.suite.txt)
git checkout -q -- . ; git clean -fdq
echo "RESULT id=$ID k=$K demo_clean_rc=$RC_CLEAN demo_patched_rc=$RC_PATCH new_suite_failures=$NF build_errors=$BUILD"
if [ $RC_CLEAN -eq 0 ] && [ $RC_PATCH -ne 0 ] && [ $NF -eq 0 ] && [ $BUILD -eq 0 ]; then echo CONFIRMED; else echo NOT-CONFIRMED; fi
