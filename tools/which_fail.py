#!/usr/bin/env python3
# usage: which_fail.py <dumpdir> [substring]  -- runs every dumped script and prints the checks that are not unsat
import sys,subprocess,glob,os,concurrent.futures
d=sys.argv[1]; sub=sys.argv[2] if len(sys.argv)>2 else ''
def run(f):
    lines=open(f).read().split('\n'); names=[]; last='cover'
    for l in lines:
        if l.startswith('; check: '): last=l[9:]
        if l=='(check-sat)': names.append(last); last='cover'
    txt=open(f).read()
    if os.environ.get('GROUND'):
        o=[];inc=False
        for l in txt.split('\n'):
            if l=='(push 1)': inc=True
            elif l=='(pop 1)': inc=False
            elif not inc and l.startswith('(assert ') and ('(forall ' in l or '(exists ' in l): continue
            o.append(l)
        txt='\n'.join(o)
    r=subprocess.run(['z3-new','-in','-smt2','-t:10000','smt.mbqi=false'],input=txt,capture_output=True,text=True).stdout.split('\n')
    ans=[x for x in r if x in('sat','unsat','unknown','timeout')]
    out=[]
    for n,a in zip(names,ans):
        if n!='cover' and a!='unsat' and sub in n: out.append((os.path.basename(f)[-16:],n[-70:],a))
    return out
with concurrent.futures.ThreadPoolExecutor(16) as ex:
    for res in ex.map(run,sorted(glob.glob(d+'/*.smt2'))):
        for r in res: print(*r)
