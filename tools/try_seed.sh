#!/bin/bash
# usage: try_seed.sh <seed-dir> <property-id>  -- applies a seeded change to /repo, runs the property's check, reverts.
SD=$(realpath $1); ID=$2
cd /repo || exit 2
if ! git diff --quiet; then echo "repo dirty"; exit 2; fi
git apply "$SD/patch.diff" 2>/dev/null || git apply --3way "$SD/patch.diff" 2>/dev/null || { echo "PATCH-DOES-NOT-APPLY $SD"; git checkout -q -- .; exit 3; }
git reset -q 2>/dev/null
cd /verif && timeout 1500 ./bin/govc check -no-evidence "$ID" > /tmp/try_seed.out 2>&1; rc=$?
cd /repo && git checkout -q -- . && git clean -fdq -- . >/dev/null 2>&1
grep -c "^VIOLATION" /tmp/try_seed.out | sed "s/^/violations: /"; grep "^VIOLATION" /tmp/try_seed.out | cut -c1-300 | head -5; tail -1 /tmp/try_seed.out
echo "exit=$rc"
