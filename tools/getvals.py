#!/usr/bin/env python3
# usage: getvals.py <script.smt2> <check-substring> term1 term2 ...  -- ground model values at a failing check
import sys,subprocess
f,sub=sys.argv[1],sys.argv[2]; terms=sys.argv[3:]
lines=open(f).read().split('\n'); o=[]; inc=False; i=0
while i<len(lines):
    l=lines[i]
    if l.startswith('; check: ') and sub in l:
        o.append(lines[i+2]); o.append('(check-sat)'); o.append('(get-value ('+' '.join(terms)+'))'); break
    if l.startswith('; check: '):
        # skip the push/assert/check/pop block
        while lines[i]!='(pop 1)': i+=1
        i+=1; continue
    if l=='(push 1)':
        while lines[i]!='(pop 1)': i+=1
        i+=1; continue
    if l.startswith('(assert ') and ('(forall ' in l or '(exists ' in l) and not sys.argv[0].endswith('full'): i+=1; continue
    o.append(l); i+=1
r=subprocess.run(['z3-new','-in','-smt2','-t:10000','smt.mbqi=false'],input='\n'.join(o),capture_output=True,text=True)
print(r.stdout[:6000])
