#!/bin/bash
# usage: store_round5.sh <ID> <k>  -- stores a confirmed round-5 seed (from /tmp/seed5) under the next free /verif/seeded/<ID>-<n>, with the result of the current check
ID=$1; K=$2; SRC=/tmp/seed5/$ID-out/$K
grep -q "^CONFIRMED" $SRC/confirm.log || { echo "$ID/$K not confirmed"; tail -3 $SRC/confirm.log; exit 1; }
NK=1; while [ -d /verif/seeded/$ID-$NK ]; do NK=$((NK+1)); done
OUT=$(/verif/tools/try_seed_scratch.sh $SRC $ID 2>&1)
RC=$(echo "$OUT" | grep -o "exit=[0-9]*" | tail -1)
OBL=$(grep "^VIOLATION" /tmp/try_seed.out | sed 's/.*obligation=\([^ ]*\).*/\1/' | sed 's|github.com/refraction-networking/conjure/||g' | sort -u | head -4 | tr '\n' ' ')
if [ "$RC" = "exit=1" ]; then DET=yes; NOTE="failing obligations: $OBL"; else DET=no; NOTE="missed"; fi
python3 - $ID $K $NK $DET "$NOTE" <<'PY'
import sys,json,os,shutil,glob
ID,k,nk,det,note=sys.argv[1:6]
src=f'/tmp/seed5/{ID}-out/{k}'; dst=f'/verif/seeded/{ID}-{nk}'
os.makedirs(dst,exist_ok=True)
for f in glob.glob(src+'/*'):
    b=os.path.basename(f)
    if b.startswith('.') or b in('confirm.log','suite.log','suite_with_change.txt') or b.endswith('.bak'): continue
    if os.path.isfile(f): shutil.copy(f,dst)
m=json.load(open(src+'/meta.json'))
conf=open(src+'/confirm.log',errors='replace').read()
m['round']=5
m['base']='scratch clone of /repo HEAD (with the fix commits, without the contract files)'
m['confirmed_by_me']={'how':'tools/seeding/confirm.sh in a scratch clone of /repo (demo on unchanged tree passes, demo with patch fails, full suite with patch has no new failures)','result':[l for l in conf.split('\n') if l.startswith('RESULT') or 'CONFIRMED' in l]}
m['check_result']={'detected':det,'note':note,'ran':f'tools/try_seed_scratch.sh /verif/seeded/{ID}-{nk} {ID}'}
json.dump(m,open(dst+'/meta.json','w'),indent=1)
print('stored',dst)
PY
echo "$ID/$K -> $ID-$NK $DET $OBL"
