#!/usr/bin/env python3
# usage: store_seed2.py <ID> <k-in-round2> <new-k> <detected:yes|no|n/a> "<note>"   (round 2 seeds from /tmp/seed4)
import sys,json,os,shutil,glob
ID,k,nk,det,note=sys.argv[1:6]
src=f'/tmp/seed4/{ID}-out/{k}'; dst=f'/verif/seeded/{ID}-{nk}'
os.makedirs(dst,exist_ok=True)
for f in glob.glob(src+'/*'):
    b=os.path.basename(f)
    if b.startswith('.') or b in('confirm.log','suite.log','suite_with_change.txt') or b.endswith('.bak'): continue
    if os.path.isfile(f): shutil.copy(f,dst)
m=json.load(open(src+'/meta.json'))
conf=open(src+'/confirm.log',errors='replace').read() if os.path.exists(src+'/confirm.log') else ''
m['round']=4
m['base']='scratch clone of /repo HEAD (with the fix commits, without the contract files)'
m['confirmed_by_me']={'how':'tools: /tmp/seed4/confirm.sh in a scratch clone of /repo (demo on unchanged tree passes, demo with patch fails, full suite with patch has no new failures)','result':[l for l in conf.split('\n') if l.startswith('RESULT') or 'CONFIRMED' in l]}
m['check_result']={'detected':det,'note':note,'ran':f'tools/try_seed.sh /verif/seeded/{ID}-{nk} {ID}'}
json.dump(m,open(dst+'/meta.json','w'),indent=1)
print('stored',dst)
