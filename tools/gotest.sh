#!/bin/bash
# usage: gotest.sh <go test args...>   -- runs go test in /repo with a private workspace file (never dirties go.work.sum)
W=$(mktemp -d); sed 's#^\(\s*\)\./#\1/repo/#; s#^\(\s*\)\.$#\1/repo#' /repo/go.work > $W/go.work; cp /repo/go.work.sum $W/ 2>/dev/null
cd ${GOTEST_DIR:-/repo} && GOWORK=$W/go.work GOFLAGS= GOPROXY=off GOSUMDB=off GOTOOLCHAIN=local go test "$@"; rc=$?
rm -rf $W; exit $rc
