#!/usr/bin/env python3
# prints the markdown table of stored seeded changes (DESIGN.md 0.4) from /verif/seeded/*/meta.json
import json,glob,re
rows=[]
for d in sorted(glob.glob('/verif/seeded/*')):
    m=json.load(open(d+'/meta.json'))
    cr=m.get('check_result',{})
    ob=cr.get('obligation') or cr.get('note') or ''
    ob=ob.replace('failing obligations: ','')
    ob=re.sub(r'github.com/refraction-networking/conjure/','',ob)
    ob=re.sub(r'\(pkg/[a-z0-9/\-]+/([a-zA-Z0-9_]+)\.','(\\1.',ob)
    ob=re.sub(r'\bpkg/[a-z0-9/\-]+/([a-zA-Z0-9_]+)\.','\\1.',ob)
    ob=re.sub(r'\(cmd/application\.','(application.',ob)
    ob=ob.strip()
    if len(ob)>150: ob=ob[:147]+'...'
    summ=(m.get('summary') or m.get('title') or '').replace('\n',' ').replace('|','/')
    if len(summ)>110: summ=summ[:107]+'...'
    rows.append((d.split('/')[-1], m.get('round',1), cr.get('detected','?'), ob.replace('|','/'), summ))
print('| change | round | detected | failing obligation(s) / reason | what the change does |')
print('|---|---|---|---|---|')
for r in rows: print('| %s | %s | %s | %s | %s |'%r)
import collections
c=collections.Counter(r[2] for r in rows)
print()
print('Totals: %d stored, %s.'%(len(rows), ', '.join('%s: %d'%(k,v) for k,v in sorted(c.items()))))
