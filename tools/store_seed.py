#!/usr/bin/env python3
# usage: store_seed.py <ID> <k> <detected:yes|no|n/a> "<which obligation / note>"
import sys,json,os,shutil,glob
ID,k,det,note=sys.argv[1:5]
src=f'/tmp/seed/{ID}-out/{k}'; dst=f'/verif/seeded/{ID}-{k}'
os.makedirs(dst,exist_ok=True)
for f in glob.glob(src+'/*'):
    b=os.path.basename(f)
    if b.startswith('.') or b in('confirm.log','suite.log','suite_with_change.txt') or b.endswith('.bak'): continue
    shutil.copy(f,dst)
m=json.load(open(src+'/meta.json'))
conf=open(src+'/confirm.log',errors='replace').read() if os.path.exists(src+'/confirm.log') else ''
m['confirmed_by_me']={'how':'tools: /tmp/seed/confirm.sh in a scratch worktree of /repo (demo on unchanged tree passes, demo with patch fails, full suite with patch has no new failures)','result':[l for l in conf.split('\n') if l.startswith('RESULT') or 'CONFIRMED' in l]}
m['check_result']={'detected':det,'note':note,'ran':f'tools/try_seed.sh /verif/seeded/{ID}-{k} {ID} (git -C /repo apply patch.diff; ./bin/govc check {ID}; git checkout)'}
json.dump(m,open(dst+'/meta.json','w'),indent=1)
print('stored',dst)
