#!/bin/bash
# stores every confirmed round-4 change that is not stored yet (as <ID>-5 / <ID>-6)
for i in $(seq -w 1 20); do ID=C$i; for k in 1 2; do
  L=/tmp/seed4/$ID-out/$k/confirm.log; NK=$((k+6))
  [ -f $L ] || continue
  [ -d /verif/seeded/$ID-$NK ] && continue
  if grep -q "^CONFIRMED" $L; then /verif/tools/store_round4.sh $ID $k $NK | tail -1 | cut -c1-220; else echo "$ID/$k: $(grep '^RESULT' $L)"; fi
done; done
