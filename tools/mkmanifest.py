#!/usr/bin/env python3
# Regenerates /verif/MANIFEST.json from tools/props_meta.json (claimed checks) and properties.jsonl.
import json, subprocess
props=[json.loads(l) for l in open('/verif/properties.jsonl')]
meta=json.load(open('/verif/tools/props_meta.json'))
hooks=subprocess.run(['git','-C','/repo','log','--format=%h %s'],capture_output=True,text=True).stdout.strip().split('\n')
hook_commits=[l.split()[0] for l in hooks if ' verif:' in ' '+l]
checks=[]; na=[]
for p in props:
    i=p['id']
    m=meta.get(i)
    if m and m.get('claimed'):
        checks.append({"property_id":i,"quick_cmd":f"./check {i} quick","thorough_cmd":f"./check {i} thorough",
          "evidence_file":f"/verif/evidence/{i}.json","replay_cmd_template":"cat {path}  # JSON: failed obligation, solver output, model, and the output of the go test -overlay replay on the real code",
          "engine":"govc","level_claimed":{"category":"proof","text":m['level_text'],"design_ref":m.get('design_ref','DESIGN.md section 6, '+i)},
          "level_note":m['level_note'],"technique":m.get('technique',"contract-based deductive verification: //@ contracts on the real Go functions, VCs from go/ssa symbolic execution, discharged by z3/cvc5")})
    else:
        na.append({"property_id":i,"reason":(m or {}).get('na_reason',"check not built yet (work in progress; DESIGN.md section 6 has the planned contracts)")})
man={"version":1,
 "setup_cmd":"cd /verif/govc && GOFLAGS=-mod=mod GOPROXY=off GOSUMDB=off GOTOOLCHAIN=local go build -o /verif/bin/govc .",
 "hooks":{"guard":"verif","enable":"build tag verif: comment-only contract files zz_verif_contracts.go (//go:build verif) next to the code; govc loads /repo with -tags=verif","baseline_off_cmd":"for m in . ./cmd/application ./cmd/registration-server ./util/station-debug; do (cd /repo/$m && GOPROXY=off GOSUMDB=off GOTOOLCHAIN=local go test -json -vet=off -count=1 -timeout 25m ./...); done","source_commits":hook_commits,"add_only":True},
 "engines":[{"name":"govc","path":"/verif/govc","serves_properties":[c['property_id'] for c in checks],"kind_free_text":"deductive verifier for Go written for this task: contracts as //@ comments, forward symbolic execution of go/ssa (x/tools v0.29.0) per path with loops cut by invariants and calls replaced by contracts, SMT-LIB VCs discharged by z3-new 5.1.0 / z3 4.8.12 / cvc5 1.0; counterexamples replayed on the real code with go test -overlay"}],
 "checks":checks,"not_applicable":na,
 "notes":"Every check rebuilds its view of /repo (go/packages, tag verif) on each run through a private GOWORK so that nothing is written into /repo. known_findings.json lists fixed defects (fix: commits in /repo) and recorded findings."}
json.dump(man,open('/verif/MANIFEST.json','w'),indent=1)
print(len(checks),'checks',len(na),'not applicable')
