#!/bin/bash
# usage: store_round2.sh <ID> <k> <newk>  -- stores a confirmed round-4 seed with the result of the current check
ID=$1; K=$2; NK=$3; SRC=/tmp/seed4/$ID-out/$K
grep -q "^CONFIRMED" $SRC/confirm.log || { echo "$ID/$K not confirmed"; tail -3 $SRC/confirm.log; exit 1; }
OUT=$(/verif/tools/try_seed_scratch.sh $SRC $ID 2>&1)
RC=$(echo "$OUT" | grep -o "exit=[0-9]*" | tail -1)
OBL=$(grep "^VIOLATION" /tmp/try_seed.out | sed 's/.*obligation=\([^ ]*\).*/\1/' | sed 's|github.com/refraction-networking/conjure/||g' | sort -u | head -4 | tr '\n' ' ')
if [ "$RC" = "exit=1" ]; then DET=yes; NOTE="failing obligations: $OBL"; else DET=no; NOTE="missed"; fi
python3 /verif/tools/store_seed4.py $ID $K $NK $DET "$NOTE"
echo "$ID/$K -> $ID-$NK $DET $OBL"
