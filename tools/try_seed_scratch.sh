#!/bin/bash
# usage: [BASE=<repo copy>] [SPECLIB=<dir>] try_seed_scratch.sh <seed-dir> <property-id>
# like try_seed.sh but on a scratch copy of /repo (never touches /repo); BASE/SPECLIB select experimental copies
SD=$(realpath $1); ID=$2; S=$(mktemp -d /tmp/repo_try.XXXXXX)
rsync -a --exclude .git ${BASE:-/repo}/ $S/ || exit 2
( cd $S && patch -p1 -s --no-backup-if-mismatch < "$SD/patch.diff" ) || { echo "PATCH-DOES-NOT-APPLY $SD"; rm -rf $S; exit 3; }
cd /verif && VERIF_REPO=$S timeout 1500 ${GOVC:-./bin/govc} check -no-evidence ${SPECLIB:+-speclib $SPECLIB} "$ID" > /tmp/try_seed.out 2>&1; rc=$?
rm -rf $S
grep -c "^VIOLATION" /tmp/try_seed.out | sed "s/^/violations: /"; grep "^VIOLATION" /tmp/try_seed.out | cut -c1-300 | head -5; tail -1 /tmp/try_seed.out
echo "exit=$rc"
